// Package c03: every durable commit point reopens to a consistent chain and catches up.
//
// The history generator and the observed store of C02 are reused.  The database is wrapped in a
// recording chain.DB that snapshots the committed image at every Flush; VerifForceFlushNext is
// armed before the store operations of every reorg so that every block boundary becomes a commit
// point.  (T) the commit model (lean/Verif/Model/Commit.lean) is run on the same operations and
// predicts the working store and the durable tip after every one of them.  (O) every snapshot is
// reopened with NewDBStore + NewManager (on a real Bolt file: the copy of the file taken at the
// commit), audited against a linear twin of its tip, and caught up by resubmitting the batches
// from the interrupted one on; it must end on the tip and state of the uninterrupted run.
package c03

import (
	"bytes"
	"errors"
	"fmt"
	"math/big"
	"os"
	"path/filepath"
	"runtime/debug"
	"sort"
	"strings"

	"go.sia.tech/core/types"
	"go.sia.tech/coreutils/chain"
	"verifharness/c02"
	"verifharness/chainx"
	"verifharness/kvx"
	"verifharness/vh"
)

func init() { vh.Register("C03", Run) }

const ClassNearTie = "catchup-near-tie-first-seen"

type snapshot struct {
	n       int // flush number
	batch   int // index of the batch during which the commit happened (-1: NewDBStore)
	mid     bool
	during  bool // taken while a submission was in progress (the batch counts as interrupted)
	img     kvx.Image
	file    string // Bolt: the file copied at the commit
	tip     string
	tainted bool
	ops     int  // store operations performed before the commit
	crash   bool // not a commit: the committed image as found changed between two commits
}

// ledgerDigest is chainx.Ledger.Digest(true) built in linear time (thousands of elements).
func ledgerDigest(l *chainx.Ledger) string {
	lines := make([]string, 0, len(l.SC)+len(l.SF)+len(l.FC)+len(l.V2FC)+1)
	pf := func(se types.StateElement) string { return fmt.Sprint(se.LeafIndex, se.MerkleProof) }
	for id, e := range l.SC {
		lines = append(lines, fmt.Sprintf("sc %v %v %v %d %s", id, e.SiacoinOutput.Address, e.SiacoinOutput.Value, e.MaturityHeight, pf(e.StateElement)))
	}
	for id, e := range l.SF {
		lines = append(lines, fmt.Sprintf("sf %v %v %d %v %s", id, e.SiafundOutput.Address, e.SiafundOutput.Value, e.ClaimStart, pf(e.StateElement)))
	}
	for id, e := range l.FC {
		lines = append(lines, fmt.Sprintf("fc %v rev %d we %d %s", id, e.FileContract.RevisionNumber, e.FileContract.WindowEnd, pf(e.StateElement)))
	}
	for id, e := range l.V2FC {
		lines = append(lines, fmt.Sprintf("v2fc %v rev %d %s", id, e.V2FileContract.RevisionNumber, pf(e.StateElement)))
	}
	sort.Strings(lines)
	return fmt.Sprintf("tip %v\n", l.Tip) + strings.Join(lines, "\n")
}

func encode(v types.EncoderTo) []byte {
	var buf bytes.Buffer
	e := types.NewEncoder(&buf)
	v.EncodeTo(e)
	e.Flush()
	return buf.Bytes()
}

func heavier(a, b *chainx.B) bool {
	th := new(big.Int).Add(b.Work, new(big.Int).Div(b.Diff, big.NewInt(5)))
	return a.Work.Cmp(th) > 0
}

// Opt tunes the histories started while it is set (the directed builders set and reset it).
var Opt struct {
	// NoArm: no forced flushes at all; the store commits only where it does on its own (the end of
	// every reorg), so a whole failed-and-rolled-back reorg lies inside one uncommitted window
	NoArm bool
	// NoModel: oracle-only (histories whose size is out of proportion for the line protocol)
	NoModel bool
	// FlushFaultAt k > 0: the k-th commit the store issues from inside ApplyBlock/RevertBlock fails at
	// the database, which discards the batch.  The store's answer to that is to panic (the process
	// dies: a stop like any other); carrying on is the failure `failed-commit-ignored`.
	FlushFaultAt int
}

// History runs one schedule with commit points forced, then reopens every commit point.
func History(r *vh.Run, name string, t *chainx.Tree, ids *c02.IDs, decls map[int]*c02.Decl, sched [][]int, kind string, rng *vh.RNG, armAll bool, maxReopen int) {
	// about half of the batches that qualify go through AddValidatedV2Blocks, in the original run
	// and again in every catch-up
	via := make([]bool, len(sched))
	for k := range via {
		via[k] = rng.Bool()
	}
	HistoryVia(r, name, t, ids, decls, sched, via, kind, rng, armAll, maxReopen)
}

// HistoryVia is History with the ingestion path of every batch given (see c02.Rig.SubmitVia).
func HistoryVia(r *vh.Run, name string, t *chainx.Tree, ids *c02.IDs, decls map[int]*c02.Decl, sched [][]int, via []bool, kind string, rng *vh.RNG, armAll bool, maxReopen int) {
	dir, err := os.MkdirTemp("", "c03-*")
	if err != nil {
		panic(err)
	}
	defer os.RemoveAll(dir)
	be, err := kvx.Open(kind, dir)
	if err != nil {
		panic(err)
	}
	defer be.Close()

	c := &vh.Case{Name: name, Model: fmt.Sprintf("elements commit %d", t.Net.N.HardforkV2.RequireHeight), Tags: []string{"backend:" + kind}}
	var snaps []*snapshot
	var rig *c02.Rig
	curBatch, inOp, storeOps := -1, false, 0
	inSubmit := false
	rec := &kvx.Rec{Inner: be.DB}
	// under a write cache the commits that matter are those of the physical database: each of them
	// is recorded as a commit point, and one Flush of the cache must issue exactly one
	physSince := 0
	takeSnap := func(n int, img kvx.Image) {
		s := &snapshot{n: n, batch: curBatch, mid: inOp, during: inSubmit, img: img, ops: storeOps}
		s.tip = c02.DurableLine(t, s.img)
		if rig != nil {
			s.tainted = rig.Tainted
		}
		snaps = append(snaps, s)
	}
	if be.Physical != nil {
		be.Physical.OnFlush = func(n int) {
			physSince++
			takeSnap(n, be.Snapshot())
		}
	}
	rec.OnFlush = func(n int) {
		if be.Physical != nil {
			if physSince != 1 {
				c.Oracle("cachedb-flush-commits-more-than-once", "one Flush of the CacheDB (after %d store ops, batch %d) committed the underlying database %d times: a stop between two of them leaves part of one store commit durable", storeOps, curBatch, physSince)
			}
			physSince = 0
			return
		}
		s := &snapshot{n: n, batch: curBatch, mid: inOp, during: inSubmit, img: be.Snapshot(), ops: storeOps}
		if be.CopyFile != nil {
			s.file = filepath.Join(dir, fmt.Sprintf("commit%d.db", n))
			if err := be.CopyFile(s.file); err != nil {
				panic(err)
			}
		}
		s.tip = c02.DurableLine(t, s.img)
		if rig != nil {
			s.tainted = rig.Tainted
		}
		snaps = append(snaps, s)
	}
	// the committed image may only change in Flush: compare it with the image snapshotted at the
	// last Flush right before every Flush, after every store operation and after every AddBlocks.
	// (An in-place edit of a value obtained from the database corrupts what a process that stops
	// before the next commit would reopen; on Bolt the same write faults.)
	corrupt := 0
	checkCommitted := func(when string) {
		if be.Committed == nil || len(snaps) == 0 {
			return
		}
		last := snaps[len(snaps)-1]
		if last.crash {
			return
		}
		now := be.Committed()
		d := kvx.DiffImage(last.img, now)
		if d == "" {
			return
		}
		corrupt++
		c.Oracle("committed-image-changed-without-flush", "%s: the committed image differs from what Flush %d committed (%s): %s; a process stopping now reopens this image", when, last.n, last.tip, d)
		// reopen it like a commit point, to show what the stop leads to
		snaps = append(snaps, &snapshot{n: last.n, batch: curBatch, mid: true, img: now, tip: c02.DurableLine(t, now), tainted: last.tainted, ops: storeOps, crash: true})
	}
	rec.OnBeforeFlush = func() {
		checkCommitted(fmt.Sprintf("before the Flush after %d store ops (batch %d)", storeOps, curBatch))
	}
	noArm, faultAt := Opt.NoArm, Opt.FlushFaultAt
	if Opt.NoModel {
		c.Model = ""
	}
	midFlushes, injectedAt := 0, ""
	if faultAt > 0 {
		c.Model = "" // the model has no failing commit; these histories are oracle-only
		c.Tags = append(c.Tags, "directed:commit-failure-inside-reorg")
		rec.FailFlush = func() error {
			if !inOp || injectedAt != "" {
				return nil
			}
			midFlushes++
			if midFlushes != faultAt {
				return nil
			}
			injectedAt = fmt.Sprintf("store op %d of batch %d", storeOps, curBatch)
			return errors.New("c03: injected commit failure (batch discarded)")
		}
	}
	// the MemDB runs also carry the atomicity probe of chainx (not the CacheDB ones: a late probe
	// would read through CacheDB.Bucket, which writes, concurrently with the harness's own reads)
	c02.ProbeNext = kind == "mem"
	rig, err = c02.NewRig(c, t, ids, decls, rec)
	c02.ProbeNext = false
	if err != nil {
		c.Oracle("newdbstore-failed", "%v", err)
		r.Add(c)
		return
	}
	armed, preArmed := false, false
	rig.CommitMode = true
	// no commit may reach the database from inside Store.AddState / Store.AddBlock: the loop of
	// AddBlocks that stores headers and bodies is not a block boundary
	callFlushes := 0
	rig.OnCall = func(name string, done bool) {
		if !done {
			callFlushes = rec.Flushes + rec.FailedFlushes
			return
		}
		if rec.Flushes+rec.FailedFlushes != callFlushes {
			c.Oracle("commit-outside-block-boundary", "a commit reached the database from inside Store.%s (batch %d, %d store ops so far): commits are issued only at the end of ApplyBlock / RevertBlock and of a reorg", name, curBatch, storeOps)
		}
	}
	if faultAt > 0 {
		rig.ExpectedPanic = "injected commit failure"
	}
	rig.OnBefore = func(apply bool, id int) {
		inOp = true
		storeOps++
		armed = !noArm && (armAll || rng.Chance(1, 2))
		if preArmed {
			// the flush branch was already opened when the submission started (see below)
			armed, preArmed = true, false
		}
		if armed {
			rig.Node.Store.VerifForceFlushNext()
		}
	}
	rig.OnFlag = func() bool { inOp = false; return armed }
	rig.OnAfter = func() {
		checkCommitted(fmt.Sprintf("after store op %d (batch %d)", storeOps, curBatch))
		// a commit taken inside this operation sees the store after it: it inherits the taint the
		// operation's own revert may have caused
		for k := len(snaps) - 1; k >= 0 && snaps[k].ops == storeOps; k-- {
			snaps[k].tainted = rig.Tainted
		}
	}
	rig.Durable = func() string {
		for k := len(snaps) - 1; k >= 0; k-- {
			if !snaps[k].crash {
				return snaps[k].tip
			}
		}
		return "h 0 tip ?"
	}
	rig.Prelude()
	crashed := false
	flushesBefore := rec.Flushes
	reorgLens := map[int]bool{}
	for i, batch := range sched {
		curBatch = i
		opsBefore := rig.Applies + rig.Reverts
		if !noArm {
			// a freshly opened store (lastFlush zero) and a store whose last commit is five seconds old
			// take the flush branch at the very next opportunity: open it before the submission, so
			// that whatever the manager does first — storing headers included — runs with it open
			rig.Node.Store.VerifForceFlushNext()
			preArmed = true
		}
		inSubmit = true
		res := rig.SubmitVia(batch, via[i])
		inSubmit = false
		if injectedAt != "" && !crashed {
			if res == "panic" && strings.Contains(rig.PanicMsg, "injected commit failure") {
				// the store refused to go on without its commit: the process stops here, like at any
				// other moment; what is durable is the last successful commit
				crashed = true
				rig.Panicked = false
				c.Tags = append(c.Tags, "commit-failure:process-stopped")
				break
			}
			c.Oracle("failed-commit-ignored", "the commit issued inside %s failed at the database (batch discarded) and AddBlocks carried on (%s); the database now lacks the writes of that batch", injectedAt, res)
			crashed = true // report once; the run continues so that the consequences show
		}
		if res == "panic" {
			if len(c.Fails) == 0 {
				c.Oracle("addblocks-panic", "AddBlocks panicked on batch %v: %s", batch, rig.PanicMsg)
			}
			break
		}
		n := rig.Applies + rig.Reverts - opsBefore
		if n > 0 {
			reorgLens[n] = true
		}
		// the end of reorgTo commits whatever is pending; at the level of the model this is a flush
		// after every batch (without store operations nothing the model tracks is pending)
		c.Op("flush", c02.Obs(t, ids, kvx.Dump(rec))+" | durable "+rig.Durable())
		if n > 0 && rec.Flushes == flushesBefore {
			c.Oracle("reorg-without-commit", "batch %d performed %d store operations and no Flush reached the database", i, n)
		}
		flushesBefore = rec.Flushes
		checkCommitted(fmt.Sprintf("after AddBlocks of batch %d", i))
		rig.CompareWithTwin(fmt.Sprintf("after batch %d", i))
	}
	finalTip := rig.Node.CM.Tip()
	finalState := encode(rig.Node.CM.TipState())
	if faultAt > 0 {
		// the uninterrupted run is a separate, undisturbed node
		ref, err := c02.NewRig(&vh.Case{Name: "reference"}, t, ids, decls, chain.NewMemDB())
		if err != nil {
			panic(err)
		}
		ref.Quiet = true
		for i, batch := range sched {
			ref.SubmitVia(batch, via[i])
		}
		finalTip = ref.Node.CM.Tip()
		finalState = encode(ref.Node.CM.TipState())
	}
	finalID, _ := t.Lookup(finalTip.ID)
	tipsSeen := map[string]bool{"0": true}
	for _, id := range rig.Tips {
		tipsSeen[fmt.Sprint(id)] = true
	}

	// reopen every commit point (sampled above maxReopen)
	var order []int
	for k, s := range snaps {
		if s.crash {
			order = append(order, k) // always reopened
		}
	}
	for _, k := range rng.Perm(len(snaps)) {
		if !snaps[k].crash && len(order) < maxReopen {
			order = append(order, k)
		}
	}
	reopened, mids := 0, 0
	for _, k := range order {
		s := snaps[k]
		if rig.Panicked {
			break
		}
		reopened++
		if s.mid {
			mids++
		}
		reopen(c, t, ids, decls, rig, s, kind, dir, sched, via, finalTip, finalState, finalID, tipsSeen)
	}
	c.Nontrivial = mids > 0
	if rig.Tainted {
		c.Tags = append(c.Tags, "history:exp-list-permuted")
	}
	for n := range reorgLens {
		if n > 8 {
			c.Tags = append(c.Tags, "reorg>8-ops")
		} else if n > 1 {
			c.Tags = append(c.Tags, "reorg-2..8-ops")
		}
	}
	if noArm {
		c.Tags = append(c.Tags, "arm:none")
	} else if armAll {
		c.Tags = append(c.Tags, "arm:every-boundary")
	} else {
		c.Tags = append(c.Tags, "arm:random-boundaries")
	}
	c.Info = map[string]any{"commits": len(snaps), "reopened": reopened, "mid_reorg_commits_reopened": mids, "store_ops": storeOps, "batches": len(sched)}
	r.CountTag("commit-points-reopened", reopened)
	r.CountTag("mid-reorg-commit-points-reopened", mids)
	r.Add(c)
}

func reopen(c *vh.Case, t *chainx.Tree, ids *c02.IDs, decls map[int]*c02.Decl, orig *c02.Rig, s *snapshot, kind, dir string,
	sched [][]int, via []bool, finalTip types.ChainIndex, finalState []byte, finalID int, tipsSeen map[string]bool) {
	where := fmt.Sprintf("commit %d (batch %d, %d store ops, mid-reorg=%v, %s)", s.n, s.batch, s.ops, s.mid, s.tip)
	if s.crash {
		where = fmt.Sprintf("stop after %d store ops in batch %d, between commits (committed image found altered; last commit %d, %s)", s.ops, s.batch, s.n, s.tip)
	}
	defer debug.SetPanicOnFault(debug.SetPanicOnFault(true))
	defer func() {
		if p := recover(); p != nil {
			c.Oracle("reopen-panic", "%s: reopening / auditing / catching up panicked: %v", where, p)
		}
	}()
	var be *kvx.Backend
	var err error
	if kind == "bolt" && s.file != "" {
		cp := s.file + ".reopen"
		data, rerr := os.ReadFile(s.file)
		if rerr != nil {
			panic(rerr)
		}
		if werr := os.WriteFile(cp, data, 0o600); werr != nil {
			panic(werr)
		}
		defer os.Remove(cp)
		be, err = kvx.OpenBoltFile(cp)
	} else {
		be, err = kvx.Reopen(kind, filepath.Join(dir, "reopen"), s.img)
	}
	if err != nil {
		c.Oracle("reopen-failed", "%s: %v", where, err)
		return
	}
	defer be.Close()
	c2 := &vh.Case{Name: "reopen"}
	rig2, err := c02.NewRig(c2, t, ids, decls, be.DB)
	if err != nil {
		c.Oracle("reopen-newdbstore-error", "%s: NewDBStore: %v", where, err)
		return
	}
	rig2.Quiet = true
	rig2.ShareTwins(orig)
	rig2.Tainted = s.tainted
	nd := rig2.Node
	// the tip is one the node had
	tip := nd.CM.Tip()
	tid, known := t.Lookup(tip.ID)
	if !known || !tipsSeen[fmt.Sprint(tid)] {
		c.Oracle("durable-tip-never-a-tip", "%s: reopened to tip %v, which the node never had at a block boundary", where, tip)
		return
	}
	// best index parent-linked, blocks with supplements and states present
	parent := types.BlockID{}
	for h := uint64(0); h <= tip.Height; h++ {
		ci, ok := nd.CM.BestIndex(h)
		if !ok {
			c.Oracle("reopened-best-index-gap", "%s: no best index at height %d (tip height %d)", where, h, tip.Height)
			return
		}
		b, bs, ok := nd.Store.Block(ci.ID)
		if !ok || bs == nil {
			c.Oracle("reopened-best-block-missing", "%s: block at height %d has no body or no supplement", where, h)
			return
		}
		if h > 0 && b.ParentID != parent {
			c.Oracle("reopened-best-not-parent-linked", "%s: block at height %d does not extend the block at height %d", where, h, h-1)
		}
		if _, ok := nd.Store.State(ci.ID); !ok {
			c.Oracle("reopened-state-missing", "%s: no state for the best block at height %d", where, h)
		}
		parent = ci.ID
	}
	if _, ok := nd.CM.BestIndex(tip.Height + 1); ok {
		c.Oracle("reopened-best-index-above-tip", "%s: a best index exists above the tip height %d", where, tip.Height)
	}
	// everything the store serves for that tip equals the linear twin's
	rig2.CompareWithTwin("reopened at " + where)
	if t.AllValid(tid) {
		tw := rig2.TwinNode(tid)
		la, lb := chainx.LedgerOf(nd), chainx.LedgerOf(tw)
		if ledgerDigest(la) != ledgerDigest(lb) {
			if s.tainted {
				c2.Oracle(c02.ClassExpOrder, "%s: the ledger folded from UpdatesSince differs from the linear node's (history reverted a mid-list removal)", where)
			} else {
				c2.Oracle("reopened-ledger-differs-from-twin", "%s: the ledger folded from UpdatesSince(ChainIndex{}) differs from the linear node's", where)
			}
		}
		if err := la.VerifyProofs(nd.CM.TipState()); err != nil {
			c2.Oracle("reopened-proof-invalid", "%s: %v", where, err)
		}
	}
	// catch up: the batches from the interrupted one on
	from := s.batch + 1
	if s.mid || s.during {
		from = s.batch
	}
	if from < 0 {
		from = 0
	}
	// catch-up, phase A: the remaining batches, from the interrupted one on, in their original order
	// and batching
	submit := func(i int) bool {
		if res := rig2.SubmitVia(sched[i], via[i]); res == "panic" {
			c2.Oracle("catchup-panic", "%s: AddBlocks panicked while resubmitting batch %d: %s", where, i, rig2.PanicMsg)
			return false
		}
		return true
	}
	for i := from; i < len(sched); i++ {
		if !submit(i) {
			break
		}
	}
	// phase B, only when A did not reach the uninterrupted tip: the earlier batches are offered
	// again as well.  This is what brings a node that stopped inside a failing reorg (and reopened
	// on one of its transient tips) back: the branch the uninterrupted run rolled back to is stored
	// with supplements and is simply re-offered.  (Re-offering everything is not the same history as
	// the uninterrupted run — an orphan batch that was rejected then may be accepted now — so the
	// expectation after B is decided from the works: the node must not stay on a tip that the
	// uninterrupted tip is sufficiently heavier than.)
	phaseB := false
	if nd.CM.Tip() != finalTip && !rig2.Panicked {
		phaseB = true
		c.Tags = append(c.Tags, "catchup-phase-B")
		for i := 0; i < from && i < len(sched); i++ {
			if !submit(i) {
				break
			}
		}
	}
	got := nd.CM.Tip()
	gotID, known := t.Lookup(got.ID)
	switch {
	case rig2.Panicked:
	case !known:
		c2.Oracle("catchup-tip-unknown", "%s: catch-up ended on a block that was never submitted", where)
	case got != finalTip:
		a, b := t.Blocks[finalID], t.Blocks[gotID]
		switch {
		case s.tainted || orig.Tainted || rig2.Tainted:
			// a permuted expiration list makes an expiry block that is valid on a linear node fail
			// validation here (commitment mismatch), so reorgs fail and are rolled back differently
			c2.Oracle(c02.ClassExpOrder, "%s: catch-up ended on block %d, the uninterrupted run on block %d (one of the runs reverted a mid-list removal, after which an expiry block valid on a linear node can be rejected)", where, gotID, finalID)
		case !t.AllValid(gotID):
			c2.Oracle("catchup-ends-on-invalid-chain", "%s: catch-up ended on block %d whose ancestry is not fully valid", where, gotID)
		case a.Work == nil || b.Work == nil:
			c2.Oracle("catchup-different-tip", "%s: catch-up ended on block %d, the uninterrupted run on block %d", where, gotID, finalID)
		case heavier(a, b):
			// every block of the uninterrupted tip's branch is stored with its supplement and was
			// offered again, and that branch is sufficiently heavier than where the node sits
			c2.Oracle("catchup-stays-on-lighter-chain", "%s: after resubmitting the remaining and then the earlier batches (phase B=%v) the node sits on block %d (work %v, difficulty %v) although the uninterrupted run's tip %d (work %v) is sufficiently heavier and fully stored", where, phaseB, gotID, b.Work, b.Diff, finalID, a.Work)
		case heavier(b, a):
			// re-offering completed a branch the uninterrupted run had rejected as orphans: a heavier,
			// fully valid chain is the right place to be
			c.Tags = append(c.Tags, "catchup-found-heavier-chain")
		default:
			c2.Oracle(ClassNearTie, "%s: catch-up ended on block %d, the uninterrupted run on block %d; neither is sufficiently heavier than the other (works %v / %v, difficulty %v)", where, gotID, finalID, b.Work, a.Work, a.Diff)
		}
	case !bytes.Equal(encode(nd.CM.TipState()), finalState):
		if s.tainted || orig.Tainted || rig2.Tainted {
			c2.Oracle(c02.ClassExpOrder, "%s: catch-up reached the same tip with a different state (one of the runs reverted a mid-list removal)", where)
		} else {
			c2.Oracle("catchup-different-state", "%s: catch-up reached the same tip %d with a different tip state", where, finalID)
		}
	}
	for _, f := range c2.Fails {
		f.Op = len(c.Ops) - 1
		c.Fails = append(c.Fails, f)
	}
}

// heaviestValidLeaf returns the fully valid block with the most work.
func heaviestValidLeaf(t *chainx.Tree) int {
	best := 0
	for _, b := range t.Blocks[1:] {
		if b.Parent != chainx.OrphanParent && t.AllValid(b.ID) && b.Work != nil && b.Work.Cmp(t.Blocks[best].Work) > 0 {
			best = b.ID
		}
	}
	return best
}

// DirectedFailingReorg: the node first follows the heaviest valid chain to its end; then a branch
// arrives that forks off below the tip, is heavier, and whose first own block passes the header
// checks but fails ValidateBlock.  The reorg reverts part of the best chain, fails and is rolled
// back; every revert and re-apply is a commit point.  Reopened on one of those transient tips the
// node must come back to the uninterrupted tip when the history is offered again: that branch is
// stored with supplements and sufficiently heavier than where the node sits.
func DirectedFailingReorg(r *vh.Run, rng *vh.RNG, name string, maxReopen int, pure bool) {
	net := c02.StoreNet(rng)
	var t *chainx.Tree
	cfg := chainx.GenCfg{Main: 8 + rng.Intn(5), Forks: 1, MaxBranch: 3, Kinds: c02.Menu(), TxPerBlk: 3}
	if msg := c02.Guarded(func() { t = chainx.GenTree(rng, net, cfg) }); msg != "" {
		c := &vh.Case{Name: name}
		c.Oracle("generator-block-rejected", "%s", msg)
		r.Add(c)
		return
	}
	leaf := heaviestValidLeaf(t)
	var cands []int
	for x := leaf; x != 0; x = t.Blocks[x].Parent {
		// leave at least two blocks of the best chain above the fork so that the reorg has several steps
		if len(t.Blocks[x].Kinds) > 0 && t.Blocks[leaf].Height-t.Blocks[x].Height >= 2 {
			cands = append(cands, x)
		}
	}
	bad := -1
	for _, src := range cands {
		id := t.Corrupt(rng, src, []string{"sig", "dup-txn"}[rng.Intn(2)])
		if id >= 0 && t.Blocks[id].HdrOk && !t.Blocks[id].BodyOk && !t.Blocks[id].Future {
			bad = id
			break
		}
	}
	if bad < 0 {
		c := &vh.Case{Name: name, Tags: []string{"directed:failing-reorg-not-built"}}
		r.Add(c)
		return
	}
	at := bad
	for t.Blocks[at].Height <= t.Blocks[leaf].Height+1 {
		at = t.MineEmpty(rng, at, 1)
	}
	// schedule: the valid chain in segments, then the invalid branch, then whatever else the tree has
	var sched [][]int
	path := t.PathFromRoot(leaf)
	for k := 0; k < len(path); {
		n := 1 + rng.Intn(4)
		if k+n > len(path) {
			n = len(path) - k
		}
		sched = append(sched, path[k:k+n])
		k += n
	}
	sched = append(sched, t.PathFromRoot(at))
	if !pure {
		// followed by whatever else the tree has (in a pure history nothing else is ever offered: a
		// later batch with a not yet validated block in it would trigger the weight comparison anyway)
		sched = append(sched, t.Schedule(rng)...)
	}
	ids := c02.NewIDs()
	decls := c02.Declare(t, ids)
	for _, kind := range []string{"mem", "cache", "bolt"} {
		// AddBlocks only: re-offering known blocks through it must trigger the reorg back (the
		// pre-validated path re-stores and would mask a defect there)
		HistoryVia(r, name+"/"+kind, t, ids, decls, sched, make([]bool, len(sched)), kind, rng.Fork(), true, maxReopen)
	}
}

// DirectedV1Batches: the v1 regime, every leaf path submitted as ONE batch from the root, lightest
// leaf first, so that every batch after the first is a multi-block extension or reorg ending on a v1
// block and the last batch is the one that reaches the final tip.  Reopened at a commit point inside
// any of those reorgs, the node is offered the very same batches again (same boundaries): their
// blocks are all stored by then — headers and bodies are written out by the first commit inside the
// reorg — but "stored" is not "applied", and the node must still adopt the heavier chain.
func DirectedV1Batches(r *vh.Run, rng *vh.RNG, name string, maxReopen int) {
	net := chainx.NewNet(rng, 1000, 2000, uint64(2+rng.Intn(2)))
	var t *chainx.Tree
	cfg := chainx.GenCfg{Main: 6 + rng.Intn(5), Forks: 2 + rng.Intn(2), MaxBranch: 6, Kinds: c02.Menu(), TxPerBlk: 2}
	if msg := c02.Guarded(func() { t = chainx.GenTree(rng, net, cfg) }); msg != "" {
		c := &vh.Case{Name: name}
		c.Oracle("generator-block-rejected", "%s", msg)
		r.Add(c)
		return
	}
	var leaves []int
	for _, l := range t.Leaves() {
		if t.AllValid(l) {
			leaves = append(leaves, l)
		}
	}
	sort.Slice(leaves, func(i, j int) bool { return t.Blocks[leaves[i]].Work.Cmp(t.Blocks[leaves[j]].Work) < 0 })
	var sched [][]int
	for _, l := range leaves {
		sched = append(sched, t.PathFromRoot(l))
	}
	ids := c02.NewIDs()
	decls := c02.Declare(t, ids)
	for _, kind := range []string{"mem", "bolt"} {
		HistoryVia(r, name+"/"+kind, t, ids, decls, sched, make([]bool, len(sched)), kind, rng.Fork(), true, maxReopen)
	}
}

// DirectedBigCommit: the scale side.  One block whose single transaction creates several thousand
// outputs, applied on a store over CacheDB without forced flushes: one store commit carrying far
// more than 2^14 writes (elements and accumulator nodes).  Whatever the cache does to the physical
// database while flushing, every commit of the physical database is a point the process can stop
// after, and is reopened.
func DirectedBigCommit(r *vh.Run, rng *vh.RNG, name string, outputs, maxReopen int) {
	net := chainx.NewNet(rng, 1000, 2000, 2)
	t := chainx.NewTree(net)
	tip := 0
	var big int
	msg := c02.Guarded(func() {
		for i := 0; i < 3; i++ {
			tip = t.Mine(rng, tip, chainx.Spec{Kinds: []string{"v1pay"}, Dt: 1})
		}
		tw := t.Twin(tip)
		cs := tw.CM.TipState()
		coins := net.Spendable(chainx.LedgerOf(tw), cs.Index.Height+1)
		var c types.SiacoinElement
		for _, x := range coins {
			if x.SiacoinOutput.Value.Cmp(c.SiacoinOutput.Value) > 0 {
				c = x
			}
		}
		// a chain of transactions inside the block, each spending the change of the previous one and
		// creating 100 small outputs (one transaction with thousands of outputs would make every
		// application of the block quadratic: an output id hashes the whole transaction)
		fee := types.Siacoins(1).Div64(100)
		small := types.Siacoins(1).Div64(1000)
		var txns []types.Transaction
		parent, value := c.ID, c.SiacoinOutput.Value
		for n := 0; n < outputs; n += 100 {
			change := value.Sub(fee).Sub(small.Mul64(100))
			txn := types.Transaction{
				SiacoinInputs:  []types.SiacoinInput{{ParentID: parent, UnlockConditions: net.UC}},
				SiacoinOutputs: []types.SiacoinOutput{{Address: net.Addr, Value: change}},
				MinerFees:      []types.Currency{fee},
			}
			for i := 0; i < 100; i++ {
				txn.SiacoinOutputs = append(txn.SiacoinOutputs, types.SiacoinOutput{Address: net.Addr2, Value: small})
			}
			net.SignV1(cs, &txn)
			txns = append(txns, txn)
			parent, value = txn.SiacoinOutputID(0), change
		}
		var err error
		big, err = t.MineWith(rng, tip, txns, nil, 1)
		if err != nil {
			panic(err)
		}
		tip = t.Mine(rng, big, chainx.Spec{Kinds: []string{"v1pay"}, Dt: 1})
	})
	if msg != "" {
		c := &vh.Case{Name: name}
		c.Oracle("generator-block-rejected", "%s", msg)
		r.Add(c)
		return
	}
	path := t.PathFromRoot(tip)
	sched := [][]int{path[:3], {big}, path[4:]}
	ids := c02.NewIDs()
	decls := c02.Declare(t, ids)
	Opt.NoArm, Opt.NoModel = true, true
	HistoryVia(r, name+"/cache", t, ids, decls, sched, make([]bool, len(sched)), "cache", rng.Fork(), false, maxReopen)
	Opt.NoArm, Opt.NoModel = false, false
}

// DirectedCommitFailure: ordinary fork histories in which one commit issued from inside
// ApplyBlock/RevertBlock fails at the database and the batch is discarded.
func DirectedCommitFailure(r *vh.Run, rng *vh.RNG, name string, maxReopen int) {
	net := c02.StoreNet(rng)
	var t *chainx.Tree
	cfg := chainx.GenCfg{Main: 7 + rng.Intn(5), Forks: 3, MaxBranch: 6, Kinds: c02.Menu(), TxPerBlk: 2}
	if msg := c02.Guarded(func() { t = chainx.GenTree(rng, net, cfg) }); msg != "" {
		c := &vh.Case{Name: name}
		c.Oracle("generator-block-rejected", "%s", msg)
		r.Add(c)
		return
	}
	ids := c02.NewIDs()
	decls := c02.Declare(t, ids)
	sched := t.Schedule(rng)
	for _, kind := range []string{"mem", "cache", "bolt"} {
		Opt.FlushFaultAt = 2 + rng.Intn(8)
		HistoryVia(r, name+"/"+kind, t, ids, decls, sched, make([]bool, len(sched)), kind, rng.Fork(), true, maxReopen)
		Opt.FlushFaultAt = 0
	}
}

// DirectedRolledBackQuiet: a reorg that fails and is rolled back inside ONE uncommitted window (no
// forced flushes), with the reverted blocks carrying no transactions: reverting them only deletes
// from the siacoin bucket, re-applying them puts the very same keys again, and the commit at the end
// of the rollback has to keep them.  The node sits on a chain ending in empty v2 blocks E1 E2 E3; a
// branch forks off E1 whose first block E2' is header-valid and body-invalid (wrong commitment) and
// which is extended until it is heavier.
func DirectedRolledBackQuiet(r *vh.Run, rng *vh.RNG, name string, maxReopen int) {
	net := chainx.NewNet(rng, 1, 60, 2)
	t := chainx.NewTree(net)
	tip := 0
	bad := -1
	var e []int
	msg := c02.Guarded(func() {
		for i := 0; i < 3+rng.Intn(3); i++ {
			tip = t.Mine(rng, tip, chainx.Spec{Kinds: []string{"v1pay", "v2pay", "v1fc"}, Dt: 1})
		}
		for i := 0; i < 3; i++ {
			tip = t.Mine(rng, tip, chainx.Spec{Dt: 1})
			e = append(e, tip)
		}
		bad = t.Corrupt(rng, e[1], "commitment")
	})
	if msg != "" || bad < 0 || !t.Blocks[bad].HdrOk || t.Blocks[bad].BodyOk {
		c := &vh.Case{Name: name, Tags: []string{"directed:rolled-back-quiet-not-built"}}
		if msg != "" {
			c.Oracle("generator-block-rejected", "%s", msg)
		}
		r.Add(c)
		return
	}
	at := bad
	for t.Blocks[at].Height <= t.Blocks[tip].Height+1 {
		at = t.MineEmpty(rng, at, 1)
	}
	sched := [][]int{t.PathFromRoot(tip), t.PathFromRoot(at)}
	ids := c02.NewIDs()
	decls := c02.Declare(t, ids)
	for _, kind := range []string{"mem", "cache", "bolt"} {
		Opt.NoArm = true
		HistoryVia(r, name+"/"+kind, t, ids, decls, sched, make([]bool, len(sched)), kind, rng.Fork(), false, maxReopen)
		Opt.NoArm = false
	}
}

func Run(r *vh.Run) {
	// memory faults of the real code (a write into bbolt's read-only mmap) become panics, which
	// the per-call recovers turn into oracle failures naming the commit point / history
	defer debug.SetPanicOnFault(debug.SetPanicOnFault(true))
	r.Rule = "a case = one fork history (generator of C02: all element-changing transaction kinds, reorgs across the v2 heights, corrupted siblings causing failed-and-rolled-back reorgs) run on MemDB, CacheDB(MemDB) or a Bolt file with VerifForceFlushNext armed before every store operation (every block boundary of every reorg is a commit point; a second mode arms a random half); every commit point (all of them up to the tier's cap, sampled above) is reopened with NewDBStore+NewManager, audited against a linear twin and caught up by resubmitting the batches from the interrupted one; non-trivial = at least one reopened commit point lies inside a multi-block reorg; distinct = distinct op lists"
	rng := vh.NewRNG(r.Seed).Fork() // NewRNG(s) and NewRNG(s+1) are one step apart; Fork decorrelates the seeds
	trees := r.Pick(18, 400)
	maxReopen := r.Pick(40, 400)
	for i := 0; i < trees; i++ {
		trng := rng.Fork()
		c02.Safely(r, fmt.Sprintf("tree%d", i), func() {
			net := c02.StoreNet(trng)
			cfg := chainx.GenCfg{Main: 7 + trng.Intn(r.Pick(6, 12)), Forks: 2 + trng.Intn(3), MaxBranch: 3 + trng.Intn(r.Pick(5, 9)),
				Kinds: c02.Menu(), TxPerBlk: 3, Corrupt: trng.Intn(3), Extend: 2,
				// every third tree gets a near-tie branch and a header-valid / body-invalid branch extended
				// until it is the heaviest: a reorg that fails half way and is rolled back
				Directed: i%3 == 0}
			var t *chainx.Tree
			if msg := c02.Guarded(func() { t = chainx.GenTree(trng, net, cfg) }); msg != "" {
				c := &vh.Case{Name: fmt.Sprintf("tree%d", i)}
				c.Oracle("generator-block-rejected", "%s", msg)
				r.Add(c)
				return
			}
			ids := c02.NewIDs()
			decls := c02.Declare(t, ids)
			sched := t.Schedule(trng)
			for _, kind := range []string{"mem", "cache", "bolt"} {
				armAll := !(kind == "mem" && i%2 == 1)
				History(r, fmt.Sprintf("tree%d/%s", i, kind), t, ids, decls, sched, kind, trng.Fork(), armAll, maxReopen)
			}
		})
	}
	for i := 0; i < r.Pick(4, 40); i++ {
		drng := rng.Fork()
		c02.Safely(r, fmt.Sprintf("failing-reorg%d", i), func() {
			DirectedFailingReorg(r, drng, fmt.Sprintf("failing-reorg%d", i), maxReopen, i%2 == 0)
		})
	}
	for i := 0; i < r.Pick(2, 20); i++ {
		vrng := rng.Fork()
		c02.Safely(r, fmt.Sprintf("side-then-prevalidated%d", i), func() {
			t, sched, via := c02.SideThenValidatedShape(vrng)
			ids := c02.NewIDs()
			decls := c02.Declare(t, ids)
			for _, kind := range []string{"mem", "bolt"} {
				HistoryVia(r, fmt.Sprintf("side-then-prevalidated%d/%s", i, kind), t, ids, decls, sched, via, kind, vrng.Fork(), true, maxReopen)
			}
		})
	}
	{
		grng := rng.Fork()
		c02.Safely(r, "big-commit", func() { DirectedBigCommit(r, grng, "big-commit", r.Pick(7000, 20000), maxReopen) })
	}
	for i := 0; i < r.Pick(3, 30); i++ {
		brng := rng.Fork()
		c02.Safely(r, fmt.Sprintf("v1-batches%d", i), func() {
			DirectedV1Batches(r, brng, fmt.Sprintf("v1-batches%d", i), maxReopen)
		})
	}
	for i := 0; i < r.Pick(2, 20); i++ {
		qrng, frng := rng.Fork(), rng.Fork()
		c02.Safely(r, fmt.Sprintf("rolled-back-quiet%d", i), func() {
			DirectedRolledBackQuiet(r, qrng, fmt.Sprintf("rolled-back-quiet%d", i), maxReopen)
		})
		c02.Safely(r, fmt.Sprintf("commit-failure%d", i), func() {
			DirectedCommitFailure(r, frng, fmt.Sprintf("commit-failure%d", i), maxReopen)
		})
	}
	r.Assume("the atom of durability is chain.DB.Flush: torn writes inside bbolt's commit, fsync and OS power-loss semantics are not modelled or exercised")
	r.Assume("consensus is a parameter (element diffs from linear twins); chain selection during catch-up is the real Manager's")
	r.Assume("pending side-chain headers (written by AddBlocks before a reorg) are outside the set-level model; the resubmission of the interrupted batch restores them on the implementation")
	_ = chain.NewMemDB
}
