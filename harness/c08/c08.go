// Package c08: the host commits only doubly-signed, monotone, value-conserving revisions.
//
// A raw renter sends every revising RPC of the real rhp4.Server (free, append, sector roots, fund,
// replenish accounts/pools; renew through the real client) well-formed or with one field
// corrupted or replayed; a recording Contractor logs every revision the host persists.  Every
// attempt is (T) replayed on the Lean model, which predicts accept/reject and the exact persisted
// revision, and (O) checked: relations between consecutive persisted revisions, both signatures
// with core's VerifyHash, the amount due recomputed independently, and consensus validation of a
// revision transaction built from the latest revision against the on-chain contract element.
package c08

import (
	"context"
	"fmt"
	"math/big"
	"runtime"
	"strings"
	"sync"

	"go.sia.tech/core/consensus"
	proto4 "go.sia.tech/core/rhp/v4"
	"go.sia.tech/core/types"
	rhp4 "go.sia.tech/coreutils/rhp/v4"
	"verifharness/rhpx"
	"verifharness/vh"
)

func init() { vh.Register("C08", Run) }

func cur(n uint64) types.Currency { return types.NewCurrency64(n) }

func round4k(n uint64) uint64 { return (n + 4095) / 4096 * 4096 }

const (
	acctA = 10
	acctB = 11
	poolP = 20
	other = 5 // a key that is neither renter nor host
	otherCid = 7000 // the worker's second contract
)

type worker struct {
	id     int
	rig    *rhpx.Rig
	s      *rhpx.Sess
	out    chan<- *vh.Case
	cid    int   // the contract currently exercised
	cur    []int // expected roots of that contract
	maxID  int
	nextID int
	setupFailed bool
}

func newWorker(id int) (*worker, error) {
	rig, err := rhpx.NewRig(rhpx.Key(rhpx.HostKeyID), rhpx.Key(rhpx.WalletKeyID))
	if err != nil {
		return nil, err
	}
	w := &worker{id: id, rig: rig, s: rhpx.NewSess(rig), cid: 1, maxID: 24, nextID: 1}
	c, err := rig.Form(rhpx.Key(rhpx.RenterKeyID), types.Siacoins(100000), types.Siacoins(200000), 400)
	if err != nil {
		return nil, err
	}
	w.s.AddContract(1, c.ID)
	// a second contract of the same renter on the same host (funding "through another contract")
	c2, err := rig.Form(rhpx.Key(rhpx.RenterKeyID), types.Siacoins(100000), types.Siacoins(200000), 400)
	if err != nil {
		return nil, err
	}
	w.s.AddContract(otherCid, c2.ID)
	for i := 1; i <= w.maxID; i++ {
		w.s.StoreSector(i)
	}
	return w, nil
}

// ---------------------------------------------------------------------------------------------
// a case

type kase struct {
	w    *worker
	c    *vh.Case
	cids []int
	// twoPhase: render the next replenish as `replq …` (decide now) so that the operations that ran
	// between its two rounds can be placed before `replc` (apply the kept effect)
	twoPhase bool
	// dueBig, when set, is the amount due of the next attempt as an unbounded integer (deposit
	// vectors whose sum does not fit 128 bits)
	dueBig *big.Int
}

func (w *worker) begin(name string, cids ...int) *kase {
	if len(cids) == 0 {
		cids = []int{w.cid}
	}
	c := &vh.Case{Name: fmt.Sprintf("w%d-%s", w.id, name), Model: w.s.CaseHeader()}
	for _, l := range w.s.AdoptLines(rhpx.Obs{Contracts: cids, Accounts: []int{acctA, acctB, acctA + 2}}) {
		c.Op(l, "ok")
	}
	// pools cannot be read back distinctly from "absent"; adopt the balance when it is non-zero
	bs, _ := w.rig.EC.PoolBalances([]proto4.Account{rhpx.Acct(poolP), rhpx.Acct(poolP + 1), rhpx.Acct(poolP + 2)})
	for i, b := range bs {
		if !b.IsZero() {
			c.Op(fmt.Sprintf("pool %d %s", poolP+i, b.ExactString()), "ok")
		}
	}
	for i := 1; i <= w.maxID; i++ {
		c.Op(fmt.Sprintf("sector %d", i), "ok []")
	}
	w.rig.Rec.Take()
	return &kase{w: w, c: c, cids: cids}
}

func (k *kase) observe() {
	o, i := k.w.s.Observe(rhpx.Obs{Contracts: k.cids, Accounts: []int{acctA, acctB}, Pools: []int{poolP, poolP + 1}})
	k.c.Op(o, i)
}

func (k *kase) state(cid int) rhp4.RevisionState {
	st, _ := k.w.rig.HostState(k.w.s.CID(cid))
	return st
}

// attempt wraps one RPC attempt: run, record the line, evaluate the oracle.
//
//	due  the amount the renter owes if the host accepts (recomputed by the harness)
//	mayCommit  whether the harness expects the host to be allowed to accept
func (k *kase) attempt(rpc, variant string, cid int, mayCommit bool, due types.Currency, run func() rhpx.Result) rhpx.Result {
	before := k.state(cid)
	bal0 := k.balances()
	k.w.rig.Rec.Tee(true)
	res := run()
	if k.twoPhase {
		k.twoPhase = false
		k.c.Op("replq"+strings.TrimPrefix(res.Op, "repl"), res.Impl)
	} else {
		k.c.Op(res.Op, res.Impl)
	}
	calls := k.w.rig.Rec.TakeTee()
	after := k.state(cid)
	bal1 := k.balances()
	defer func() { k.creditsPerKey(rpc, calls, bal0, bal1) }()
	class := rpc + ":" + variant
	for _, n := range res.Notes {
		k.c.Oracle("proof:"+rpc, "%s", n)
	}
	var persisted *rhpx.Call
	for i := range calls {
		c := &calls[i]
		if (c.Kind == "revise" || c.Kind == "creditA" || c.Kind == "creditP") && c.Err == nil && c.Contract == k.w.s.CID(cid) {
			if persisted != nil {
				k.c.Oracle("two-revisions-in-one-rpc:"+rpc, "%s persisted twice", rpc)
			}
			persisted = c
		}
	}
	if persisted == nil {
		k.dueBig = nil
		if mayCommit && res.Cls != "ok" && res.Cls != "dropped" {
			k.c.Oracle("good-request-refused:"+class, "%s (%s) is a request the host must accept but it answered %s", rpc, variant, res.Cls)
		}
		if after.Revision != before.Revision {
			k.c.Oracle("revision-changed-without-persist-call:"+class, "%s (%s): the stored revision changed although no persisting call succeeded", rpc, res.Cls)
		}
		if res.Cls == "ok" && rpc != "replenish" && rpc != "latest" {
			k.c.Oracle("ok-without-revision:"+class, "%s answered ok without persisting a revision", rpc)
		}
		return res
	}
	if res.Cls != "ok" && res.Cls != "dropped" {
		k.c.Oracle("persisted-on-failure:"+class, "%s answered %s but persisted revision %d", rpc, res.Cls, persisted.Revision.RevisionNumber)
	}
	if !mayCommit {
		k.c.Oracle("bad-request-committed:"+class, "%s with %s was committed (revision %d -> %d)", rpc, variant, before.Revision.RevisionNumber, persisted.Revision.RevisionNumber)
	}
	if tip := k.w.rig.CM.Tip().Height; tip >= before.Revision.ProofHeight {
		k.c.Oracle("persisted-past-proof-height:"+rpc, "%s persisted revision %d although the chain tip %d has reached the contract's proof height %d", rpc,
			persisted.Revision.RevisionNumber, tip, before.Revision.ProofHeight)
	}
	if after.Renewed {
		k.c.Oracle("persisted-for-renewed-contract:"+rpc, "%s persisted revision %d of a contract the host has renewed", rpc, persisted.Revision.RevisionNumber)
	}
	if !before.Revisable {
		k.c.Oracle("persisted-for-non-revisable-contract:"+rpc, "%s persisted revision %d of a contract that is not revisable (renewed=%v, proof height %d, tip %d)", rpc,
			persisted.Revision.RevisionNumber, before.Renewed, before.Revision.ProofHeight, k.w.rig.CM.Tip().Height)
	}
	old, rev := before.Revision, persisted.Revision
	if persisted.Kind != "revise" {
		// what was credited, in unbounded integers, is exactly what the renter's payout lost
		sum := new(big.Int)
		for _, d := range persisted.Deposits {
			sum.Add(sum, d.Amount.Big())
		}
		paid := new(big.Int).Sub(old.RenterOutput.Value.Big(), rev.RenterOutput.Value.Big())
		if sum.Cmp(paid) != 0 {
			k.c.Oracle("credited-not-paid:"+rpc, "%s credited %v in total but the renter payout fell by %v", rpc, sum, paid)
		}
	}
	if after.Revision != rev {
		k.c.Oracle("stored-is-not-persisted:"+rpc, "the stored revision differs from the one handed to the contractor")
	}
	dueBig := due.Big()
	if k.dueBig != nil {
		dueBig = k.dueBig
	}
	k.dueBig = nil
	k.relations(class, old, rev, dueBig)
	k.consensusOK(class, cid)
	return res
}


// the accounts and pools the cases of this package ever name
var ledgerAccounts = []int{acctA, acctB, acctA + 2}
var ledgerPools = []int{poolP, poolP + 1, poolP + 2}

type balances struct {
	acct, pool map[proto4.Account]*big.Int
}

func (k *kase) balances() balances {
	b := balances{acct: map[proto4.Account]*big.Int{}, pool: map[proto4.Account]*big.Int{}}
	for _, a := range ledgerAccounts {
		v, _ := k.w.rig.EC.AccountBalance(rhpx.Acct(a))
		b.acct[rhpx.Acct(a)] = v.Big()
	}
	var keys []proto4.Account
	for _, p := range ledgerPools {
		keys = append(keys, rhpx.Acct(p))
	}
	vs, _ := k.w.rig.EC.PoolBalances(keys)
	for i, key := range keys {
		b.pool[key] = vs[i].Big()
	}
	return b
}

// creditsPerKey: every account (pool) gains exactly the sum of the deposits naming it in the credit
// call the host persisted — also when one batch names it more than once — and nothing else moves;
// in total the balances gain exactly what the renter's payout lost.
func (k *kase) creditsPerKey(rpc string, calls []rhpx.Call, b0, b1 balances) {
	wantA, wantP := map[proto4.Account]*big.Int{}, map[proto4.Account]*big.Int{}
	for _, c := range calls {
		if c.Err != nil || (c.Kind != "creditA" && c.Kind != "creditP") {
			continue
		}
		m := wantA
		if c.Kind == "creditP" {
			m = wantP
		}
		for _, d := range c.Deposits {
			if m[d.Account] == nil {
				m[d.Account] = new(big.Int)
			}
			m[d.Account].Add(m[d.Account], d.Amount.Big())
		}
	}
	// an account-paid operation that ran on another stream in the middle of the RPC
	spent := map[proto4.Account]*big.Int{}
	for _, c := range calls {
		if c.Kind == "debit" && c.Err == nil {
			if spent[c.Account] == nil {
				spent[c.Account] = new(big.Int)
			}
			spent[c.Account].Add(spent[c.Account], c.Usage.RenterCost().Big())
		}
	}
	for key, v := range spent {
		if wantA[key] == nil {
			wantA[key] = new(big.Int)
		}
		wantA[key].Sub(wantA[key], v)
	}
	cmp := func(what string, before, after, want map[proto4.Account]*big.Int) {
		for key, v0 := range before {
			gain := new(big.Int).Sub(after[key], v0)
			w := want[key]
			if w == nil {
				w = new(big.Int)
			}
			if gain.Cmp(w) != 0 {
				k.c.Oracle("credit-per-"+what+":"+rpc, "%s %d gained %v but the deposits naming it in the persisted batch (less what it spent meanwhile) add up to %v", what, rhpx.KeyID(types.PublicKey(key)), gain, w)
			}
		}
	}
	cmp("account", b0.acct, b1.acct, wantA)
	cmp("pool", b0.pool, b1.pool, wantP)
}

// relations checks the property's per-revision clauses between the revision before and after.
func (k *kase) relations(class string, old, rev types.V2FileContract, due *big.Int) {
	fail := func(what, f string, a ...any) { k.c.Oracle(what+":"+class, f, a...) }
	if rev.RevisionNumber <= old.RevisionNumber {
		fail("revision-number-not-higher", "revision number %d -> %d", old.RevisionNumber, rev.RevisionNumber)
	}
	if rev.RenterPublicKey != old.RenterPublicKey || rev.HostPublicKey != old.HostPublicKey {
		fail("keys-changed", "keys changed")
	}
	if rev.ProofHeight != old.ProofHeight || rev.ExpirationHeight != old.ExpirationHeight {
		fail("heights-changed", "heights %d/%d -> %d/%d", old.ProofHeight, old.ExpirationHeight, rev.ProofHeight, rev.ExpirationHeight)
	}
	if !rev.TotalCollateral.Equals(old.TotalCollateral) {
		fail("total-collateral-changed", "total collateral %v -> %v", old.TotalCollateral, rev.TotalCollateral)
	}
	if rev.RenterOutput.Address != old.RenterOutput.Address || rev.HostOutput.Address != old.HostOutput.Address {
		fail("addresses-changed", "payout addresses changed")
	}
	if !rev.RenterOutput.Value.Add(rev.HostOutput.Value).Equals(old.RenterOutput.Value.Add(old.HostOutput.Value)) {
		fail("payout-sum-changed", "payout sum changed")
	}
	if rev.HostOutput.Value.Cmp(old.HostOutput.Value) < 0 {
		fail("value-moved-to-renter", "host payout fell %v -> %v", old.HostOutput.Value.ExactString(), rev.HostOutput.Value.ExactString())
	} else if rev.HostOutput.Value.Sub(old.HostOutput.Value).Big().Cmp(due) != 0 {
		fail("amount-due-not-exact", "renter paid %v, amount due %v", rev.HostOutput.Value.Sub(old.HostOutput.Value).ExactString(), due)
	}
	if rev.MissedHostValue.Cmp(old.MissedHostValue) > 0 {
		fail("missed-host-value-rose", "missed host value rose")
	}
	if rev.Capacity < old.Capacity || rev.Filesize > rev.Capacity {
		fail("capacity", "capacity %d -> %d, filesize %d", old.Capacity, rev.Capacity, rev.Filesize)
	}
	sigHash := k.w.rig.CM.TipState().ContractSigHash(rev)
	if !old.RenterPublicKey.VerifyHash(sigHash, rev.RenterSignature) {
		fail("renter-signature-invalid", "the persisted revision %d does not carry a valid renter signature", rev.RevisionNumber)
	}
	if !old.HostPublicKey.VerifyHash(sigHash, rev.HostSignature) {
		fail("host-signature-invalid", "the persisted revision %d does not carry a valid host signature", rev.RevisionNumber)
	}
}

// consensusOK builds a revision transaction from the host's latest revision and validates it
// against the on-chain contract element with core's consensus rules.
func (k *kase) consensusOK(class string, cid int) {
	id := k.w.s.CID(cid)
	_, fce, err := k.w.rig.EC.V2FileContractElement(id)
	if err != nil {
		return // not confirmed (yet)
	}
	st := k.state(cid)
	if st.Revision.RevisionNumber == fce.V2FileContract.RevisionNumber {
		return
	}
	txn := types.V2Transaction{FileContractRevisions: []types.V2FileContractRevision{{Parent: fce.Copy(), Revision: st.Revision}}}
	cs := k.w.rig.CM.TipState()
	if err := consensus.ValidateV2Transaction(consensus.NewMidState(cs), txn); err != nil {
		k.c.Oracle("consensus-rejects-latest-revision:"+class, "a revision transaction of revision %d is rejected by consensus: %v", st.Revision.RevisionNumber, err)
	}
}

func (k *kase) done(nontrivial bool, tags ...string) {
	k.observe()
	k.c.Nontrivial = nontrivial
	k.c.Tags = append(k.c.Tags, tags...)
	k.w.out <- k.c
}

// ---------------------------------------------------------------------------------------------
// amounts due, recomputed by the harness

func freeDue(p proto4.HostPrices, n int) types.Currency { return p.FreeSectorPrice.Mul64(uint64(n)) }

func appendDue(p proto4.HostPrices, tip uint64, fc types.V2FileContract, appended int) types.Currency {
	free := (fc.Capacity - fc.Filesize) / proto4.SectorSize
	growth := uint64(appended)
	if free >= growth {
		growth = 0
	} else {
		growth -= free
	}
	dur := fc.ExpirationHeight - tip
	return p.StoragePrice.Mul64(1 << 22).Mul64(growth).Mul64(dur).Add(p.IngressPrice.Mul64(round4k(32 * growth)))
}

func rootsDue(p proto4.HostPrices, n uint64) types.Currency { return p.EgressPrice.Mul64(round4k(32 * n)) }

// ---------------------------------------------------------------------------------------------
// variants: one corrupted or replayed field

type variant struct {
	name   string
	chal   func(k *kase, cid int) rhpx.SigSpec
	second rhpx.SigSpec
	bang   bool
	prices func(p rhpx.PriceSpec) rhpx.PriceSpec
	commit bool
}

func honestChal(*kase, int) rhpx.SigSpec { return rhpx.Honest }

func mut(key int, f func(fc *types.V2FileContract)) rhpx.SigSpec {
	return rhpx.SigSpec{Kind: "b", Key: key, Mut: f}
}

func variants() []variant {
	r := rhpx.RenterKeyID
	return []variant{
		{name: "good", chal: honestChal, second: rhpx.Honest, commit: true},
		{name: "good-explicit", chal: honestChal, second: mut(r, nil), commit: true},
		{name: "sig-then-drop", chal: honestChal, second: rhpx.Honest, bang: true, commit: true},
		{name: "abort", chal: honestChal, second: rhpx.Abort},
		{name: "drop", chal: honestChal, second: rhpx.SigSpec{Kind: "drop"}},
		{name: "chal-garbage", chal: func(*kase, int) rhpx.SigSpec { return rhpx.BadS }, second: rhpx.Honest},
		{name: "chal-zero", chal: func(*kase, int) rhpx.SigSpec { return rhpx.ZeroS }, second: rhpx.Honest},
		{name: "chal-wrong-key", chal: func(k *kase, cid int) rhpx.SigSpec {
			return rhpx.SigSpec{Kind: "c", Key: other, Cid: cid, N: k.state(cid).Revision.RevisionNumber + 1}
		}, second: rhpx.Honest},
		{name: "chal-replayed", chal: func(k *kase, cid int) rhpx.SigSpec { // the challenge of the previous exchange
			return rhpx.SigSpec{Kind: "c", Key: r, Cid: cid, N: k.state(cid).Revision.RevisionNumber}
		}, second: rhpx.Honest},
		{name: "chal-future", chal: func(k *kase, cid int) rhpx.SigSpec {
			return rhpx.SigSpec{Kind: "c", Key: r, Cid: cid, N: k.state(cid).Revision.RevisionNumber + 2}
		}, second: rhpx.Honest},
		{name: "chal-other-contract", chal: func(k *kase, cid int) rhpx.SigSpec {
			return rhpx.SigSpec{Kind: "c", Key: r, Cid: cid + 7, N: k.state(cid).Revision.RevisionNumber + 1}
		}, second: rhpx.Honest},
		{name: "sig-garbage", chal: honestChal, second: rhpx.BadS},
		{name: "sig-zero", chal: honestChal, second: rhpx.ZeroS},
		{name: "sig-wrong-key", chal: honestChal, second: mut(other, nil)},
		{name: "sig-host-key", chal: honestChal, second: mut(rhpx.HostKeyID, nil)},
		{name: "sig-equal-revnum", chal: honestChal, second: mut(r, func(fc *types.V2FileContract) { fc.RevisionNumber-- })},
		{name: "sig-higher-revnum", chal: honestChal, second: mut(r, func(fc *types.V2FileContract) { fc.RevisionNumber++ })},
		{name: "sig-pays-less", chal: honestChal, second: mut(r, func(fc *types.V2FileContract) {
			fc.RenterOutput.Value = fc.RenterOutput.Value.Add(cur(1))
			fc.HostOutput.Value = fc.HostOutput.Value.Sub(cur(1))
		})},
		{name: "sig-pays-more", chal: honestChal, second: mut(r, func(fc *types.V2FileContract) {
			fc.RenterOutput.Value = fc.RenterOutput.Value.Sub(cur(1))
			fc.HostOutput.Value = fc.HostOutput.Value.Add(cur(1))
		})},
		{name: "sig-sum-changed", chal: honestChal, second: mut(r, func(fc *types.V2FileContract) { fc.HostOutput.Value = fc.HostOutput.Value.Add(cur(1)) })},
		{name: "sig-missed-changed", chal: honestChal, second: mut(r, func(fc *types.V2FileContract) { fc.MissedHostValue = fc.MissedHostValue.Add(cur(1)) })},
		{name: "sig-collateral-changed", chal: honestChal, second: mut(r, func(fc *types.V2FileContract) { fc.TotalCollateral = fc.TotalCollateral.Add(cur(1)) })},
		{name: "sig-proof-height-changed", chal: honestChal, second: mut(r, func(fc *types.V2FileContract) { fc.ProofHeight++ })},
		{name: "sig-expiration-changed", chal: honestChal, second: mut(r, func(fc *types.V2FileContract) { fc.ExpirationHeight++ })},
		{name: "sig-renter-key-changed", chal: honestChal, second: mut(r, func(fc *types.V2FileContract) { fc.RenterPublicKey = rhpx.Key(other).PublicKey() })},
		{name: "sig-host-key-changed", chal: honestChal, second: mut(r, func(fc *types.V2FileContract) { fc.HostPublicKey = rhpx.Key(other).PublicKey() })},
		{name: "sig-filesize-changed", chal: honestChal, second: mut(r, func(fc *types.V2FileContract) { fc.Filesize += proto4.SectorSize; fc.Capacity += proto4.SectorSize })},
		{name: "sig-root-changed", chal: honestChal, second: mut(r, func(fc *types.V2FileContract) { fc.FileMerkleRoot[3] ^= 8 })},
		{name: "sig-is-a-challenge", chal: honestChal, second: rhpx.SigSpec{Kind: "c", Key: r, Cid: 1, N: 1}},
		{name: "prices-expired", chal: honestChal, second: rhpx.Honest, prices: func(p rhpx.PriceSpec) rhpx.PriceSpec { p.Delta = -3600; return p }},
		{name: "prices-foreign", chal: honestChal, second: rhpx.Honest, prices: func(p rhpx.PriceSpec) rhpx.PriceSpec { p.Sig = rhpx.PS{Kind: "s", Key: other}; return p }},
		{name: "prices-renter-signed", chal: honestChal, second: rhpx.Honest, prices: func(p rhpx.PriceSpec) rhpx.PriceSpec { p.Sig = rhpx.PS{Kind: "s", Key: r}; return p }},
		{name: "prices-altered", chal: honestChal, second: rhpx.Honest, prices: func(p rhpx.PriceSpec) rhpx.PriceSpec { p.Sig = rhpx.PS{Kind: "o", Key: rhpx.HostKeyID}; return p }},
		{name: "prices-unsigned", chal: honestChal, second: rhpx.Honest, prices: func(p rhpx.PriceSpec) rhpx.PriceSpec { p.Sig = rhpx.PS{Kind: "z"}; return p }},
		{name: "prices-cheaper-genuine", chal: honestChal, second: rhpx.Honest, commit: true, prices: func(p rhpx.PriceSpec) rhpx.PriceSpec {
			p.P.FreeSectorPrice, p.P.EgressPrice, p.P.StoragePrice = cur(1), cur(1), cur(1)
			return p
		}},
	}
}

func (w *worker) prices(v variant) rhpx.PriceSpec {
	ps := w.s.GoodPrices()
	if v.prices != nil {
		ps = v.prices(ps)
	}
	return ps
}

func swapRemove(rs []int, i int) []int {
	out := append([]int(nil), rs...)
	out[i] = out[len(out)-1]
	return out[:len(out)-1]
}

// ensure brings the contract to at least n sectors (honest client; setup).
func (w *worker) ensure(n int) {
	if len(w.cur) >= n {
		return
	}
	var add []int
	for len(w.cur)+len(add) < n {
		add = append(add, w.nextID)
		w.nextID = w.nextID%w.maxID + 1
	}
	res, _ := w.s.CAppend(w.cid, w.s.GoodPrices(), add)
	if res.Cls != "ok" {
		if !w.setupFailed {
			w.setupFailed = true
			c := &vh.Case{Name: fmt.Sprintf("w%d-setup-append", w.id)}
			c.Oracle("good-request-refused:append:setup", "an honest append through the real client was refused: %s", res.Impl)
			w.out <- c
		}
		w.sync(w.cid)
		return
	}
	w.cur = append(w.cur, add...)
}

func (w *worker) sync(cid int) {
	st, _ := w.rig.HostState(w.s.CID(cid))
	w.cur = rhpx.RootIDList(st.Roots)
}

// one: a single attempt of rpc with variant v, followed by an honest attempt of the same RPC
// (the contract must still work, and the now stale signatures must no longer be accepted).
func one(rpc string, v variant) func(w *worker) {
	return func(w *worker) {
		w.ensure(4)
		k := w.begin(fmt.Sprintf("%s-%s", rpc, v.name))
		k.run(rpc, v, false)
		k.observe()
		k.run(rpc, variants()[0], false)
		k.done(true, "rpc:"+rpc, "variant:"+v.name)
	}
}

// run performs rpc with variant v on the worker's contract.
func (k *kase) run(rpc string, v variant, inHistory bool) rhpx.Result {
	w := k.w
	cid := w.cid
	ps := w.prices(v)
	prices, _ := w.s.Prices(ps)
	st := k.state(cid)
	n := len(w.cur)
	var res rhpx.Result
	switch rpc {
	case "free":
		is := []uint64{uint64(n - 1), 0}
		if n == 1 {
			is = []uint64{0}
		}
		if n == 0 {
			is = nil
		}
		expect := append([]int(nil), w.cur...)
		for _, i := range is {
			expect = swapRemove(expect, int(i))
		}
		res = k.attempt(rpc, v.name, cid, v.commit, freeDue(prices, len(is)), func() rhpx.Result {
			return w.s.Free(rhpx.FreeArgs{Cid: cid, Prices: ps, Chal: v.chal(k, cid), Indices: is, Second: v.second, Bang: v.bang, NewIDs: expect})
		})
	case "append":
		add := []int{w.nextID, rhpx.FakeRootBase + 3, w.nextID%w.maxID + 1}
		expect := append(append([]int(nil), w.cur...), add[0], add[2])
		res = k.attempt(rpc, v.name, cid, v.commit, appendDue(prices, prices.TipHeight, st.Revision, 2), func() rhpx.Result {
			return w.s.Append(rhpx.AppendArgs{Cid: cid, Prices: ps, Chal: v.chal(k, cid), Sectors: add, Second: v.second, Bang: v.bang, NewIDs: expect})
		})
	case "roots":
		length := uint64(min(n, 3))
		sig := v.second
		commit := v.commit
		if c := v.chal(k, cid); c.Kind != "h" { // no challenge in this RPC: a bad challenge becomes a bad signature
			sig, commit = rhpx.BadS, false
		}
		if sig.Kind == "abort" || sig.Kind == "drop" {
			res = k.attempt(rpc, v.name, cid, false, cur(0), func() rhpx.Result {
				return w.s.Garbage(proto4.RPCSectorRootsID, &proto4.RPCSectorRootsRequest{Prices: prices, ContractID: w.s.CID(cid), Offset: 0, Length: length})
			})
		} else {
			res = k.attempt(rpc, v.name, cid, commit && length > 0, rootsDue(prices, length), func() rhpx.Result {
				return w.s.Roots(rhpx.RootsArgs{Cid: cid, Prices: ps, Offset: 0, Len: length, Sig: sig, CurIDs: w.cur})
			})
		}
	case "fund":
		ds := []rhpx.Deposit{{Account: acctA, Amount: cur(12345)}, {Account: acctB, Amount: cur(1)}}
		if inHistory && k.w.nextID%3 == 0 { // one batch naming an account twice
			ds = []rhpx.Deposit{{Account: acctA, Amount: cur(12000)}, {Account: acctB, Amount: cur(1)}, {Account: acctA, Amount: cur(345)}}
		}
		sig := v.second
		commit := v.commit && v.prices == nil || v.commit && v.prices != nil // prices are not part of this RPC
		if c := v.chal(k, cid); c.Kind != "h" {
			sig, commit = rhpx.BadS, false
		}
		if v.prices != nil && !v.commit {
			commit = true // a price-table variant does not touch a fund request: it is a good request
		}
		if sig.Kind == "abort" || sig.Kind == "drop" {
			res = k.attempt(rpc, v.name, cid, false, cur(0), func() rhpx.Result {
				return w.s.Garbage(proto4.RPCFundAccountsID, &proto4.RPCFundAccountsRequest{ContractID: w.s.CID(cid), Deposits: []proto4.AccountDeposit{{Account: rhpx.Acct(acctA), Amount: cur(5)}}, RenterSignature: types.Signature{1}})
			})
		} else {
			res = k.attempt(rpc, v.name, cid, commit, cur(12346), func() rhpx.Result {
				return w.s.Fund(rhpx.FundArgs{Cid: cid, Deposits: ds, Sig: sig, CurIDs: w.cur})
			})
		}
	case "replA", "replP":
		pool := rpc == "replP"
		accts := []int{acctA, acctB}
		var bal []types.Currency
		if pool {
			accts = []int{poolP}
			bal, _ = w.rig.EC.PoolBalances([]proto4.Account{rhpx.Acct(poolP)})
		} else {
			bal, _ = w.rig.EC.AccountBalances([]proto4.Account{rhpx.Acct(acctA), rhpx.Acct(acctB)})
		}
		// a target above every balance: something is always due
		target := cur(777)
		for _, b := range bal {
			if b.Cmp(target) >= 0 {
				target = b.Add(cur(777))
			}
		}
		var due types.Currency
		for _, b := range bal {
			due = due.Add(target.Sub(b))
		}
		chal := v.chal(k, cid)
		switch chal.Kind {
		case "c": // the replenish challenge has its own shape: translate the variant
			chal = rhpx.SigSpec{Kind: "q", Key: chal.Key, Cid: chal.Cid, N: chal.N - 1, Target: target, Accts: accts}
		}
		commit := v.commit
		if v.prices != nil {
			commit = true // no price table in this RPC
		}
		res = k.attempt("replenish", v.name, cid, commit, due, func() rhpx.Result {
			return w.s.Replenish(rhpx.ReplArgs{Pool: pool, Cid: cid, Accounts: accts, Target: target, Chal: chal, Second: v.second, Bang: v.bang, CurIDs: w.cur})
		})
	}
	w.sync(cid)
	_ = inHistory
	return res
}

// params: out-of-range parameters of each RPC.
func params(idx int) func(w *worker) {
	return func(w *worker) {
		w.ensure(3)
		cid := w.cid
		k := w.begin(fmt.Sprintf("params-%d", idx))
		n := uint64(len(w.cur))
		ps := w.s.GoodPrices()
		prices, _ := w.s.Prices(ps)
		free := func(name string, is []uint64, ok bool) {
			k.attempt("free", name, cid, ok, freeDue(prices, len(is)), func() rhpx.Result {
				return w.s.Free(rhpx.FreeArgs{Cid: cid, Prices: ps, Chal: rhpx.Honest, Indices: is, Second: rhpx.Honest})
			})
			w.sync(cid)
		}
		roots := func(name string, off, l uint64, ok bool) {
			k.attempt("roots", name, cid, ok, rootsDue(prices, l), func() rhpx.Result {
				return w.s.Roots(rhpx.RootsArgs{Cid: cid, Prices: ps, Offset: off, Len: l, Sig: rhpx.Honest, CurIDs: w.cur})
			})
		}
		switch idx {
		case 0:
			free("index-out-of-range", []uint64{n}, false)
			free("index-duplicate", []uint64{1, 1}, false)
			free("index-far", []uint64{1 << 40}, false)
			free("no-indices", nil, true)
		case 1:
			roots("offset-out-of-range", n+1, 1, false)
			roots("length-out-of-range", 1, n, false)
			roots("length-zero", 0, 0, false)
			roots("length-huge", 0, 1<<40, false)
			// offset + length wraps around 2^64
			roots("offset-max-length-one", ^uint64(0), 1, false)
			roots("offset-wraps-to-zero", ^uint64(0)-1, 2, false)
			roots("offset-wraps-into-range", ^uint64(0), 2, false)
			roots("offset-half-length-half", 1<<63, 1<<63, false)
			roots("whole", 0, n, true)
		case 2:
			k.attempt("append", "no-sectors", cid, false, cur(0), func() rhpx.Result {
				return w.s.Append(rhpx.AppendArgs{Cid: cid, Prices: ps, Chal: rhpx.Honest, Sectors: nil, Second: rhpx.Honest})
			})
			st := k.state(cid)
			k.attempt("append", "only-unknown-sectors", cid, true, appendDue(prices, prices.TipHeight, st.Revision, 0), func() rhpx.Result {
				return w.s.Append(rhpx.AppendArgs{Cid: cid, Prices: ps, Chal: rhpx.Honest, Sectors: []int{rhpx.FakeRootBase + 1, rhpx.FakeRootBase + 2}, Second: rhpx.Honest, NewIDs: w.cur})
			})
		case 3:
			fund := func(name string, ds []rhpx.Deposit, ok bool, due types.Currency) {
				k.attempt("fund", name, cid, ok, due, func() rhpx.Result {
					return w.s.Fund(rhpx.FundArgs{Cid: cid, Deposits: ds, Sig: rhpx.Honest, CurIDs: w.cur})
				})
			}
			fund("no-deposits", nil, false, cur(0))
			fund("zero-amount", []rhpx.Deposit{{Account: acctA, Amount: cur(0)}}, false, cur(0))
			fund("zero-account", []rhpx.Deposit{{Account: 0, Amount: cur(3)}}, false, cur(0))
			fund("more-than-the-contract-holds", []rhpx.Deposit{{Account: acctA, Amount: types.Siacoins(1000000)}}, false, cur(0))
			fund("same-account-twice", []rhpx.Deposit{{Account: acctA, Amount: cur(3)}, {Account: acctA, Amount: cur(4)}}, true, cur(7))
			fund("same-account-thrice-apart", []rhpx.Deposit{{Account: acctA, Amount: cur(10)}, {Account: acctB, Amount: cur(1)}, {Account: acctA, Amount: cur(20)}, {Account: acctA, Amount: cur(30)}}, true, cur(61))
		case 4: // an unknown contract
			k.attempt("free", "unknown-contract", 9, false, cur(0), func() rhpx.Result {
				return w.s.Free(rhpx.FreeArgs{Cid: 9, Prices: ps, Chal: rhpx.Honest, Indices: []uint64{0}, Second: rhpx.Honest})
			})
			k.attempt("fund", "unknown-contract", 9, false, cur(0), func() rhpx.Result {
				return w.s.Fund(rhpx.FundArgs{Cid: 9, Deposits: []rhpx.Deposit{{Account: acctA, Amount: cur(3)}}, Sig: rhpx.Honest})
			})
			k.attempt("roots", "unknown-contract", 9, false, cur(0), func() rhpx.Result {
				return w.s.Roots(rhpx.RootsArgs{Cid: 9, Prices: ps, Offset: 0, Len: 1, Sig: rhpx.Honest})
			})
			k.attempt("append", "unknown-contract", 9, false, cur(0), func() rhpx.Result {
				return w.s.Append(rhpx.AppendArgs{Cid: 9, Prices: ps, Chal: rhpx.Honest, Sectors: []int{1}, Second: rhpx.Honest})
			})
			for _, pool := range []bool{false, true} {
				pool := pool
				accts := []int{acctA}
				if pool {
					accts = []int{poolP}
				}
				k.attempt("replenish", "unknown-contract", 9, false, cur(0), func() rhpx.Result {
					return w.s.Replenish(rhpx.ReplArgs{Pool: pool, Cid: 9, Accounts: accts, Target: types.Siacoins(1), Chal: rhpx.Honest, Second: rhpx.Honest})
				})
			}
			r, _ := w.s.Latest(9)
			k.c.Op(r.Op, r.Impl)
		case 6: // deposit vectors whose sum does not fit 128 bits, and amounts next to 2^128
			two127 := types.NewCurrency(0, 1<<63)
			maxC := types.NewCurrency(^uint64(0), ^uint64(0))
			pays := func(wrapped types.Currency) rhpx.SigSpec {
				// the renter signs the revision that pays the total as a 128-bit adder would compute it
				return rhpx.SigSpec{Kind: "b", Key: rhpx.RenterKeyID, Mut: func(fc *types.V2FileContract) {
					fc.RevisionNumber++
					fc.RenterOutput.Value = fc.RenterOutput.Value.Sub(wrapped)
					fc.HostOutput.Value = fc.HostOutput.Value.Add(wrapped)
				}}
			}
			fundBig := func(name string, ds []rhpx.Deposit, sig rhpx.SigSpec) {
				sum := new(big.Int)
				for _, d := range ds {
					sum.Add(sum, d.Amount.Big())
				}
				k.dueBig = sum
				k.attempt("fund", name, cid, false, cur(0), func() rhpx.Result {
					return w.s.Fund(rhpx.FundArgs{Cid: cid, Deposits: ds, Sig: sig, CurIDs: w.cur})
				})
				k.observe()
			}
			fundBig("sum-wraps-to-one", []rhpx.Deposit{{Account: acctA, Amount: two127}, {Account: acctB, Amount: two127.Add(cur(1))}}, pays(cur(1)))
			fundBig("sum-wraps-to-zero", []rhpx.Deposit{{Account: acctA, Amount: two127}, {Account: acctB, Amount: two127}}, pays(cur(0)))
			fundBig("sum-wraps-same-account", []rhpx.Deposit{{Account: acctA, Amount: maxC}, {Account: acctA, Amount: cur(8)}}, pays(cur(7)))
			fundBig("three-deposits-wrap", []rhpx.Deposit{{Account: acctA, Amount: two127}, {Account: acctB, Amount: cur(5)}, {Account: acctA, Amount: two127}}, pays(cur(5)))
			// a PREFIX of the batch overflows, the last addition does not: an overflow flag that is only
			// looked at after the loop sees nothing
			sc := types.Siacoins(1)
			fundBig("prefix-wraps-then-one-siacoin", []rhpx.Deposit{{Account: acctA, Amount: two127}, {Account: acctB, Amount: two127}, {Account: acctA + 2, Amount: sc}}, pays(sc))
			fundBig("prefix-wraps-same-account", []rhpx.Deposit{{Account: acctA, Amount: two127}, {Account: acctA, Amount: two127}, {Account: acctA, Amount: cur(9)}}, pays(cur(9)))
			fundBig("prefix-wraps-at-the-maximum", []rhpx.Deposit{{Account: acctA, Amount: maxC}, {Account: acctB, Amount: cur(1)}, {Account: acctA + 2, Amount: cur(4)}, {Account: acctB, Amount: cur(6)}}, pays(cur(10)))
			fundBig("prefix-wraps-in-the-middle", []rhpx.Deposit{{Account: acctB, Amount: cur(3)}, {Account: acctA, Amount: two127}, {Account: acctA + 2, Amount: two127}, {Account: acctB, Amount: cur(2)}, {Account: acctA, Amount: cur(1)}}, pays(cur(6)))
			fundBig("prefix-wraps-twice", []rhpx.Deposit{{Account: acctA, Amount: maxC}, {Account: acctB, Amount: maxC}, {Account: acctA + 2, Amount: maxC}, {Account: acctA, Amount: cur(10)}}, pays(cur(7)))
			fundBig("prefix-wraps-honest-signature", []rhpx.Deposit{{Account: acctA, Amount: two127}, {Account: acctB, Amount: two127}, {Account: acctA + 2, Amount: sc}}, rhpx.Honest)
			fundBig("sum-wraps-honest-signature", []rhpx.Deposit{{Account: acctA, Amount: two127}, {Account: acctB, Amount: two127.Add(cur(1))}}, rhpx.Honest)
			fundBig("largest-amount", []rhpx.Deposit{{Account: acctA, Amount: maxC}}, rhpx.Honest)
			fundBig("largest-total", []rhpx.Deposit{{Account: acctA, Amount: maxC.Sub(cur(1))}, {Account: acctB, Amount: cur(1)}}, rhpx.Honest)
			// replenish: targets whose deposits overflow / come close
			for _, pool := range []bool{false, true} {
				pool := pool
				accts := []int{acctA, acctB, acctA + 2}
				if pool {
					accts = []int{poolP, poolP + 1, poolP + 2}
				}
				for _, t := range []struct {
					name   string
					target types.Currency
					n      int
				}{{"target-2^127-three-accounts", two127, 3}, {"target-max-two-accounts", maxC, 2}, {"target-max-one-account", maxC, 1}} {
					t := t
					k.attempt("replenish", t.name, cid, false, cur(0), func() rhpx.Result {
						return w.s.Replenish(rhpx.ReplArgs{Pool: pool, Cid: cid, Accounts: accts[:t.n], Target: t.target, Chal: rhpx.Honest, Second: rhpx.Honest, CurIDs: w.cur})
					})
					k.observe()
				}
			}
			// and the contract still works
			k.run("fund", variants()[0], false)
		case 5: // latest revision: what the host reports is what it stores, doubly signed
			r, resp := w.s.Latest(cid)
			k.c.Op(r.Op, r.Impl)
			st := k.state(cid)
			if r.Cls != "ok" || resp.Contract != st.Revision {
				k.c.Oracle("latest-revision-differs", "RPCLatestRevision does not return the stored revision")
			}
			sigHash := w.rig.CM.TipState().ContractSigHash(resp.Contract)
			if !resp.Contract.RenterPublicKey.VerifyHash(sigHash, resp.Contract.RenterSignature) || !resp.Contract.HostPublicKey.VerifyHash(sigHash, resp.Contract.HostSignature) {
				k.c.Oracle("latest-revision-unsigned", "the latest revision is not doubly signed")
			}
			k.consensusOK("latest", cid)
		}
		k.done(true, "kind:params")
	}
}


// interleaved: an account-paid operation on another stream lands between the host's replenish
// quote and the renter's signature.  The revision both parties sign pays the quoted sum, so the
// quoted sum is what has to be credited, whatever the balances are by then.
func interleaved(idx int) func(w *worker) {
	return func(w *worker) {
		w.ensure(2)
		cid := w.cid
		k := w.begin(fmt.Sprintf("interleaved-%d", idx))
		prices := rhpx.DefaultPrices()
		rc := prices.EgressPrice.Mul64(4096)
		// the account can pay for the interleaved operations out of its own balance
		pre, _ := w.rig.EC.AccountBalances([]proto4.Account{rhpx.Acct(acctA), rhpx.Acct(acctB)})
		if pre[0].Cmp(types.Siacoins(2)) < 0 || pre[1].Cmp(types.Siacoins(2)) < 0 {
			k.attempt("fund", "good", cid, true, types.Siacoins(4), func() rhpx.Result {
				return w.s.Fund(rhpx.FundArgs{Cid: cid, Deposits: []rhpx.Deposit{{Account: acctA, Amount: types.Siacoins(2)}, {Account: acctB, Amount: types.Siacoins(2)}}, Sig: rhpx.Honest, CurIDs: w.cur})
			})
			k.observe()
		}
		bals, _ := w.rig.EC.AccountBalances([]proto4.Account{rhpx.Acct(acctA), rhpx.Acct(acctB)})
		target := bals[0].Add(types.Siacoins(3))
		if bals[1].Cmp(target) >= 0 {
			target = bals[1].Add(types.Siacoins(3))
		}
		due := target.Sub(bals[0]).Add(target.Sub(bals[1]))
		var mid []rhpx.Result
		tok := w.s.GoodToken(acctA)
		between := func() {
			switch idx % 4 {
			case 0:
				mid = append(mid, w.s.Read(rhpx.ReadArgs{Prices: w.s.GoodPrices(), Token: tok, Root: 1, Offset: 0, Len: 64}))
			case 1:
				mid = append(mid, w.s.Write(rhpx.WriteArgs{Prices: w.s.GoodPrices(), Token: tok, Len: 64, Sector: 2}))
			case 2:
				mid = append(mid, w.s.Verify(rhpx.VerifyArgs{Prices: w.s.GoodPrices(), Token: tok, Root: 1, Leaf: 3}))
			case 3: // several
				mid = append(mid, w.s.Read(rhpx.ReadArgs{Prices: w.s.GoodPrices(), Token: tok, Root: 1, Offset: 64, Len: 128}))
				mid = append(mid, w.s.Read(rhpx.ReadArgs{Prices: w.s.GoodPrices(), Token: w.s.GoodToken(acctB), Root: 2, Offset: 0, Len: 64}))
			}
		}
		_ = rc
		second := rhpx.Honest
		if idx >= 4 && idx < 8 {
			second = rhpx.BadS // the RPC fails after the interleaved operation: only that operation counts
		}
		res := k.attempt("replenish", fmt.Sprintf("interleaved-%d", idx), cid, second.Kind == "h", due, func() rhpx.Result {
			return w.s.Replenish(rhpx.ReplArgs{Cid: cid, Accounts: []int{acctA, acctB}, Target: target, Chal: rhpx.Honest, Second: second, CurIDs: w.cur, Between: between})
		})
		// the model is sequential: the replenish (its deposits fixed at the quote), then what ran meanwhile
		for _, m := range mid {
			k.c.Op(m.Op, m.Impl)
			if m.Cls != "ok" {
				k.c.Oracle("interleaved-operation-refused", "the operation on the other stream was refused: %s", m.Impl)
			}
		}
		_ = res
		k.observe()
		k.done(true, "kind:interleaved")
	}
}


// interleavedCredit: between the host's replenish quote on one contract and the renter's signature,
// a listed account (pool) is CREDITED through the renter's second contract.  The revision both
// parties sign on the first contract pays the quoted sum, so the quoted sum has to be credited.
func interleavedCredit(idx int) func(w *worker) {
	return func(w *worker) {
		w.ensure(1)
		cid := w.cid
		pool := idx%2 == 1
		k := w.begin(fmt.Sprintf("interleaved-credit-%d", idx), cid, otherCid)
		accts := []int{acctA, acctB}
		var bals []types.Currency
		if pool {
			accts = []int{poolP, poolP + 1}
			bals, _ = w.rig.EC.PoolBalances([]proto4.Account{rhpx.Acct(poolP), rhpx.Acct(poolP + 1)})
		} else {
			bals, _ = w.rig.EC.AccountBalances([]proto4.Account{rhpx.Acct(acctA), rhpx.Acct(acctB)})
		}
		hi := bals[0]
		if bals[1].Cmp(hi) > 0 {
			hi = bals[1]
		}
		target := hi.Add(types.Siacoins(5))
		due := target.Sub(bals[0]).Add(target.Sub(bals[1]))
		var mid []rhpx.Result
		between := func() {
			switch {
			case pool: // top the first pool up part of the way through the other contract
				mid = append(mid, w.s.Replenish(rhpx.ReplArgs{Pool: true, Cid: otherCid, Accounts: accts[:1], Target: bals[0].Add(types.Siacoins(2)), Chal: rhpx.Honest, Second: rhpx.Honest}))
			case idx%4 == 0: // fund one listed account
				mid = append(mid, w.s.Fund(rhpx.FundArgs{Cid: otherCid, Deposits: []rhpx.Deposit{{Account: acctA, Amount: types.Siacoins(4)}}, Sig: rhpx.Honest}))
			default: // fund both, one of them past the target
				mid = append(mid, w.s.Fund(rhpx.FundArgs{Cid: otherCid, Deposits: []rhpx.Deposit{{Account: acctB, Amount: types.Siacoins(9)}, {Account: acctA, Amount: types.Siacoins(1)}}, Sig: rhpx.Honest}))
			}
		}
		second := rhpx.Honest
		if idx >= 4 {
			second = rhpx.BadS
		}
		k.twoPhase = true
		k.attempt("replenish", fmt.Sprintf("interleaved-credit-%d", idx), cid, second.Kind == "h", due, func() rhpx.Result {
			return w.s.Replenish(rhpx.ReplArgs{Pool: pool, Cid: cid, Accounts: accts, Target: target, Chal: rhpx.Honest, Second: second, CurIDs: w.cur, Between: between})
		})
		for _, m := range mid {
			k.c.Op(m.Op, m.Impl)
			if m.Cls != "ok" {
				k.c.Oracle("interleaved-operation-refused", "the operation through the other contract was refused: %s", m.Impl)
			}
		}
		k.c.Op("replc", "ok")
		k.observe()
		k.consensusOK("interleaved-credit", otherCid)
		k.done(true, "kind:interleaved-credit")
	}
}

// history: a random sequence of all revising RPCs, each well-formed or with one corrupted field.
func history(idx int, rng *vh.RNG, steps int) func(w *worker) {
	return func(w *worker) {
		w.ensure(2)
		k := w.begin(fmt.Sprintf("hist%d", idx))
		vs := variants()
		rpcs := []string{"free", "append", "roots", "fund", "replA", "replP", "append", "fund"}
		for i := 0; i < steps; i++ {
			rpc := rpcs[rng.Intn(len(rpcs))]
			v := vs[0]
			if rng.Chance(1, 2) {
				v = vs[rng.Intn(len(vs))]
			}
			if rpc == "free" && len(w.cur) == 0 {
				rpc = "append"
			}
			if rpc == "append" && len(w.cur) > 40 {
				rpc = "free"
			}
			k.run(rpc, v, true)
			k.c.Tags = append(k.c.Tags, "step:"+rpc+":"+v.name)
			k.observe()
		}
		k.done(true, "kind:history")
	}
}

// renewal: the old contract stops being revisable, the new one continues with the same roots.
func renewal(idx int, kind string, interleave bool) func(w *worker) {
	return func(w *worker) {
		w.ensure(3)
		old := w.cid
		newc := old + 1
		k := w.begin(fmt.Sprintf("%s%d", kind, idx), old, newc)
		if interleave {
			k.c.Name += "-contended"
		}
		k.run("fund", variants()[0], false)
		k.observe()
		// renew through the real client
		ctx := context.Background()
		settings, err := rhp4.RPCSettings(ctx, w.rig.T)
		if err != nil {
			k.c.Oracle("harness-setup", "settings: %v", err)
			k.done(false)
			return
		}
		st := k.state(old)
		fs := &rhpx.HookSigner{FundSigner: &rhpx.FundSigner{W: w.rig.W, PK: rhpx.Key(rhpx.RenterKeyID)}}
		if interleave {
			// between receiving the host's inputs and sending its signatures the renter completes (tries
			// to complete) another revising RPC on the same contract on a second stream
			fs.Hook = func() {
				base := st
				w.s.SetBase(old, &base)
				defer w.s.SetBase(old, nil)
				r := w.s.Fund(rhpx.FundArgs{Cid: old, Deposits: []rhpx.Deposit{{Account: acctA, Amount: types.Siacoins(40)}}, Sig: rhpx.Honest, CurIDs: w.cur})
				w.rig.Rec.Tee(true) // keep recording for the renewal itself
				if r.Cls == "ok" {
					k.c.Oracle("lock-not-exclusive:fund-during-"+kind, "a fund RPC was committed on a contract that a %s in flight holds locked", kind)
				}
			}
		}
		w.rig.Rec.Take()
		w.rig.Rec.Tee(true)
		var res struct {
			Contract   rhp4.ContractRevision
			RenewalSet rhp4.TransactionSet
		}
		var expectNew func(latest types.V2FileContract) types.V2FileContract
		switch kind {
		case "renew":
			params := proto4.RPCRenewContractParams{ContractID: w.s.CID(old), Allowance: types.Siacoins(100000), Collateral: types.Siacoins(200000), ProofHeight: st.Revision.ProofHeight + 2}
			var r rhp4.RPCRenewContractResult
			r, err = rhp4.RPCRenewContract(ctx, w.rig.T, w.rig.CM, fs, w.rig.CM.TipState(), settings.Prices, settings.WalletAddress, st.Revision, params)
			res.Contract, res.RenewalSet = r.Contract, r.RenewalSet
			expectNew = func(l types.V2FileContract) types.V2FileContract {
				rn, _ := proto4.RenewContract(l, settings.Prices, settings.WalletAddress, params)
				return rn.NewContract
			}
		case "refresh-full":
			params := proto4.RPCRefreshContractParams{ContractID: w.s.CID(old), Allowance: types.Siacoins(1000), Collateral: types.Siacoins(2000)}
			var r rhp4.RPCRefreshContractResult
			r, err = rhp4.RPCRefreshContractFullRollover(ctx, w.rig.T, w.rig.CM, fs, w.rig.CM.TipState(), settings.Prices, settings.WalletAddress, st.Revision, params)
			res.Contract, res.RenewalSet = r.Contract, r.RenewalSet
			expectNew = func(l types.V2FileContract) types.V2FileContract {
				rn, _ := proto4.RefreshContractFullRollover(l, settings.Prices, settings.WalletAddress, params)
				return rn.NewContract
			}
		default:
			params := proto4.RPCRefreshContractParams{ContractID: w.s.CID(old), Allowance: types.Siacoins(100000), Collateral: types.Siacoins(200000)}
			var r rhp4.RPCRefreshContractResult
			r, err = rhp4.RPCRefreshContractPartialRollover(ctx, w.rig.T, w.rig.CM, fs, w.rig.CM.TipState(), settings.Prices, settings.WalletAddress, st.Revision, params)
			res.Contract, res.RenewalSet = r.Contract, r.RenewalSet
			expectNew = func(l types.V2FileContract) types.V2FileContract {
				rn, _ := proto4.RefreshContractPartialRollover(l, settings.Prices, settings.WalletAddress, params)
				return rn.NewContract
			}
		}
		w.rig.T.WaitIdle()
		calls := w.rig.Rec.TakeTee()
		w.rig.Rec.Take()
		if err != nil {
			k.c.Oracle("harness-setup", "%s through the real client failed: %v", kind, err)
			k.done(false)
			return
		}
		// the renewal must be built from the LATEST revision of the old contract
		latest := k.state(old).Revision
		for _, c := range calls {
			if c.Kind == "renew" && c.Err == nil {
				want, got := expectNew(latest), c.Revision
				if !got.RenterOutput.Value.Equals(want.RenterOutput.Value) || !got.HostOutput.Value.Equals(want.HostOutput.Value) ||
					!got.MissedHostValue.Equals(want.MissedHostValue) || !got.TotalCollateral.Equals(want.TotalCollateral) ||
					got.Filesize != want.Filesize || got.Capacity != want.Capacity || got.FileMerkleRoot != want.FileMerkleRoot {
					k.c.Oracle("renewal-not-from-latest-revision:"+kind, "the %s contract has payouts %v/%v (missed %v, collateral %v); built from the latest revision %d they are %v/%v (missed %v, collateral %v)", kind,
						got.RenterOutput.Value, got.HostOutput.Value, got.MissedHostValue, got.TotalCollateral, latest.RevisionNumber,
						want.RenterOutput.Value, want.HostOutput.Value, want.MissedHostValue, want.TotalCollateral)
				}
			}
		}
		w.s.AddContract(newc, res.Contract.ID)
		nst := k.state(newc)
		k.c.Op(fmt.Sprintf("renew %d %d %s %d %d", old, newc, rhpx.Body(nst.Revision, w.cur), rhpx.KeyID(st.Revision.RenterPublicKey), rhpx.KeyID(st.Revision.HostPublicKey)), "ok []")
		// what the host recorded: one renewal whose new contract is doubly signed by the old keys
		seen := false
		for _, c := range calls {
			if c.Kind == "renew" && c.Err == nil {
				seen = true
				sigHash := w.rig.CM.TipState().ContractSigHash(c.Revision)
				if !st.Revision.RenterPublicKey.VerifyHash(sigHash, c.Revision.RenterSignature) || !st.Revision.HostPublicKey.VerifyHash(sigHash, c.Revision.HostSignature) {
					k.c.Oracle("renewed-contract-unsigned", "the renewed contract is not signed by both parties")
				}
				if c.Revision.Filesize != st.Revision.Filesize || c.Revision.FileMerkleRoot != st.Revision.FileMerkleRoot || c.Revision.Capacity < c.Revision.Filesize {
					k.c.Oracle("renewed-contract-loses-data", "the renewed contract does not commit to the old contract's data")
				}
				if c.Revision.RenterPublicKey != st.Revision.RenterPublicKey || c.Revision.HostPublicKey != st.Revision.HostPublicKey {
					k.c.Oracle("renewed-contract-keys", "the renewed contract changes keys")
				}
			}
		}
		if !seen {
			k.c.Oracle("renew-not-recorded", "the %s succeeded but the contractor saw no renewal", kind)
		}
		if after := k.state(old); after.Revision != st.Revision || !after.Renewed || after.Revisable {
			k.c.Oracle("renewed-contract-still-revisable", "after the renewal the old contract is revisable=%v renewed=%v", after.Revisable, after.Renewed)
		}
		k.observe()
		if _, err := w.rig.CM.AddV2PoolTransactions(res.RenewalSet.Basis, res.RenewalSet.Transactions); err != nil {
			k.c.Oracle("renewal-set-invalid", "renewal set rejected by the pool: %v", err)
		}
		w.rig.Mine(1)
		tl, ti := w.s.TipLine()
		k.c.Op(tl, ti)
		// every revising RPC on the old contract must now be refused and change nothing
		for _, rpc := range []string{"free", "append", "roots", "fund", "replA", "replP"} {
			v := variants()[0]
			v.commit = false
			k.run(rpc, v, false)
		}
		r, _ := w.s.Latest(old)
		k.c.Op(r.Op, r.Impl)
		k.observe()
		// the new contract continues
		w.cid = newc
		w.sync(newc)
		for _, rpc := range []string{"roots", "free", "append", "fund"} {
			k.run(rpc, variants()[0], false)
			k.observe()
		}
		k.done(true, "kind:renewal", "renewal:"+kind, fmt.Sprintf("contended:%v", interleave))
	}
}


// badInputSigner signs contracts and renewals correctly but corrupts the signatures that spend the
// siacoin inputs it contributes: everything the host checks itself is in order, the finished
// transaction is not.
type badInputSigner struct{ *rhpx.FundSigner }

func (b *badInputSigner) SignV2Inputs(txn *types.V2Transaction, toSign []int) {
	b.FundSigner.SignV2Inputs(txn, toSign)
	for _, i := range toSign {
		for j := range txn.SiacoinInputs[i].SatisfiedPolicy.Signatures {
			txn.SiacoinInputs[i].SatisfiedPolicy.Signatures[j][0] ^= 0x01
		}
	}
}

// failedRenew: a renew / refresh whose final transaction is invalid must be rejected and leave the
// old contract exactly as it was (still revisable, same revision, no renewal recorded); honest
// operations on it afterwards work.
func failedRenew(idx int, kind string) func(w *worker) {
	return func(w *worker) {
		w.ensure(2)
		old := w.cid
		newc := old + 1
		// NOTE: the id the renewal would get is never looked up on the host: the reference contractor's
		// LockV2Contract marks an id as locked before it checks that the contract exists, so probing a
		// future id would leave the contract created later under it locked for good
		k := w.begin(fmt.Sprintf("failed-%s%d", kind, idx), old, newc)
		k.run("fund", variants()[0], false)
		k.observe()
		ctx := context.Background()
		settings, err := rhp4.RPCSettings(ctx, w.rig.T)
		if err != nil {
			k.c.Oracle("harness-setup", "settings: %v", err)
			k.done(false)
			return
		}
		before := k.state(old)
		w.rig.Rec.Take()
		fs := &badInputSigner{&rhpx.FundSigner{W: w.rig.W, PK: rhpx.Key(rhpx.RenterKeyID)}}
		switch kind {
		case "renew":
			_, err = rhp4.RPCRenewContract(ctx, w.rig.T, w.rig.CM, fs, w.rig.CM.TipState(), settings.Prices, settings.WalletAddress, before.Revision, proto4.RPCRenewContractParams{
				ContractID: w.s.CID(old), Allowance: types.Siacoins(100000), Collateral: types.Siacoins(200000), ProofHeight: before.Revision.ProofHeight + 2})
		case "refresh-full":
			_, err = rhp4.RPCRefreshContractFullRollover(ctx, w.rig.T, w.rig.CM, fs, w.rig.CM.TipState(), settings.Prices, settings.WalletAddress, before.Revision, proto4.RPCRefreshContractParams{
				ContractID: w.s.CID(old), Allowance: types.Siacoins(1000), Collateral: types.Siacoins(2000)})
		case "refresh-partial":
			_, err = rhp4.RPCRefreshContractPartialRollover(ctx, w.rig.T, w.rig.CM, fs, w.rig.CM.TipState(), settings.Prices, settings.WalletAddress, before.Revision, proto4.RPCRefreshContractParams{
				ContractID: w.s.CID(old), Allowance: types.Siacoins(1000), Collateral: types.Siacoins(2000)})
		}
		w.rig.T.WaitIdle()
		calls := w.rig.Rec.Take()
		if err == nil {
			k.c.Oracle("invalid-renewal-accepted:"+kind, "a %s whose transaction carries corrupted input signatures was accepted", kind)
		}
		for _, c := range calls {
			if c.Kind == "renew" && c.Err == nil {
				k.c.Oracle("failed-renew-recorded:"+kind, "the %s was rejected (%v) but the contractor recorded a renewal", kind, err)
			}
		}
		after := k.state(old)
		if after.Revision != before.Revision || after.Renewed || !after.Revisable {
			k.c.Oracle("failed-renew-changed-contract:"+kind, "after the rejected %s the old contract is revisable=%v renewed=%v, revision %d -> %d", kind, after.Revisable, after.Renewed,
				before.Revision.RevisionNumber, after.Revision.RevisionNumber)
		}
		for _, c := range calls {
			if (c.Kind == "renew" || c.Kind == "add") && c.Err == nil {
				k.c.Oracle("failed-renew-left-contract:"+kind, "after the rejected %s the host holds a renewal contract that can never be confirmed", kind)
			}
		}
		k.observe()
		// the next exchange: latest revision and honest revisions of the old contract
		r, resp := w.s.Latest(old)
		k.c.Op(r.Op, r.Impl)
		if r.Cls == "ok" && (resp.Renewed || !resp.Revisable) {
			k.c.Oracle("failed-renew-changed-contract:"+kind, "RPCLatestRevision after the rejected %s: revisable=%v renewed=%v", kind, resp.Revisable, resp.Renewed)
		}
		for _, rpc := range []string{"fund", "replP", "roots"} {
			k.run(rpc, variants()[0], false)
			k.observe()
		}
		k.done(true, "kind:failed-"+kind)
	}
}


// renewLimit: a host with a small MaxContractDuration and renewals sized exactly around it.  core's
// Validate measures ProofHeight + ProofWindow - Prices.TipHeight against the setting: one block more
// is out of range and must change nothing; exactly the limit is served.
func renewLimit(idx int) func(w *worker) {
	return func(w *worker) {
		w.ensure(2)
		old := w.cid
		newc := old + 1
		k := w.begin(fmt.Sprintf("renew-limit%d", idx), old, newc)
		ctx := context.Background()
		before := k.state(old)
		tip := w.rig.CM.Tip().Height
		edge := before.Revision.ProofHeight + 5 // the last proof height the limit admits
		saved := w.rig.SR.RHP4Settings()
		small := saved
		small.MaxContractDuration = edge + proto4.ProofWindow - tip
		w.rig.SR.Update(small)
		defer w.rig.SR.Update(saved)
		settings, err := rhp4.RPCSettings(ctx, w.rig.T)
		if err != nil {
			k.c.Oracle("harness-setup", "settings: %v", err)
			k.done(false)
			return
		}
		renew := func(proofHeight uint64) (rhp4.RPCRenewContractResult, error, []rhpx.Call) {
			w.rig.Rec.Take()
			fs := &rhpx.FundSigner{W: w.rig.W, PK: rhpx.Key(rhpx.RenterKeyID)}
			r, err := rhp4.RPCRenewContract(ctx, w.rig.T, w.rig.CM, fs, w.rig.CM.TipState(), settings.Prices, settings.WalletAddress, before.Revision, proto4.RPCRenewContractParams{
				ContractID: w.s.CID(old), Allowance: types.Siacoins(100000), Collateral: types.Siacoins(200000), ProofHeight: proofHeight})
			w.rig.T.WaitIdle()
			return r, err, w.rig.Rec.Take()
		}
		for _, over := range []uint64{1, 2, proto4.ProofWindow - 1, proto4.ProofWindow, proto4.ProofWindow + 1, 100000} {
			_, err, calls := renew(edge + over)
			name := fmt.Sprintf("duration-limit+%d", over)
			if err == nil {
				k.c.Oracle("out-of-range-renewal-accepted:"+name, "a renewal lasting %d blocks was accepted by a host whose MaxContractDuration is %d", edge+over+proto4.ProofWindow-tip, small.MaxContractDuration)
			}
			for _, c := range calls {
				if c.Kind == "renew" && c.Err == nil {
					k.c.Oracle("out-of-range-renewal-recorded:"+name, "the contractor recorded a renewal beyond the host's maximum duration")
				}
			}
			after := k.state(old)
			if after.Revision != before.Revision || after.Renewed || !after.Revisable {
				k.c.Oracle("out-of-range-renewal-changed-contract:"+name, "after the refused renewal the old contract is revisable=%v renewed=%v", after.Revisable, after.Renewed)
			}
			k.observe()
			if err == nil {
				k.done(true, "kind:renew-limit")
				return
			}
		}
		// exactly the limit: served
		res, err, _ := renew(edge)
		if err != nil {
			k.c.Oracle("good-request-refused:renew:duration-limit", "a renewal lasting exactly MaxContractDuration was refused: %v", err)
			k.done(true, "kind:renew-limit")
			return
		}
		w.s.AddContract(newc, res.Contract.ID)
		nst := k.state(newc)
		k.c.Op(fmt.Sprintf("renew %d %d %s %d %d", old, newc, rhpx.Body(nst.Revision, w.cur), rhpx.KeyID(before.Revision.RenterPublicKey), rhpx.KeyID(before.Revision.HostPublicKey)), "ok []")
		if _, err := w.rig.CM.AddV2PoolTransactions(res.RenewalSet.Basis, res.RenewalSet.Transactions); err != nil {
			k.c.Oracle("renewal-set-invalid", "renewal set rejected by the pool: %v", err)
		}
		w.rig.Mine(1)
		tl, ti := w.s.TipLine()
		k.c.Op(tl, ti)
		k.observe()
		w.cid = newc
		w.sync(newc)
		k.run("fund", variants()[0], false)
		k.done(true, "kind:renew-limit")
	}
}


// pausedRevising: a two-round revising RPC is stopped after the host's first response; on a second
// stream the renter runs a FULL renew or refresh of the same contract; then the first RPC gets its
// signature.  The contract is locked by the first RPC, so the renewal has to be refused, and the
// first RPC then commits as if nothing had happened; in no case may a revision be persisted for a
// contract that has been renewed.
func pausedRevising(idx int) func(w *worker) {
	return func(w *worker) {
		w.ensure(3)
		cid := w.cid
		rpc := []string{"replenish", "append", "free"}[idx%3]
		kind := []string{"renew", "refresh-full", "refresh-partial"}[(idx/3)%3]
		k := w.begin(fmt.Sprintf("paused-%s-%s", rpc, kind))
		ctx := context.Background()
		settings, err := rhp4.RPCSettings(ctx, w.rig.T)
		if err != nil {
			k.c.Oracle("harness-setup", "settings: %v", err)
			k.done(false)
			return
		}
		st := k.state(cid)
		ps := w.s.GoodPrices()
		prices, _ := w.s.Prices(ps)
		between := func() {
			fs := &rhpx.FundSigner{W: w.rig.W, PK: rhpx.Key(rhpx.RenterKeyID)}
			var err error
			switch kind {
			case "renew":
				_, err = rhp4.RPCRenewContract(ctx, w.rig.T, w.rig.CM, fs, w.rig.CM.TipState(), settings.Prices, settings.WalletAddress, st.Revision, proto4.RPCRenewContractParams{
					ContractID: w.s.CID(cid), Allowance: types.Siacoins(100000), Collateral: types.Siacoins(200000), ProofHeight: st.Revision.ProofHeight + 2})
			case "refresh-full":
				_, err = rhp4.RPCRefreshContractFullRollover(ctx, w.rig.T, w.rig.CM, fs, w.rig.CM.TipState(), settings.Prices, settings.WalletAddress, st.Revision, proto4.RPCRefreshContractParams{
					ContractID: w.s.CID(cid), Allowance: types.Siacoins(1000), Collateral: types.Siacoins(2000)})
			default:
				_, err = rhp4.RPCRefreshContractPartialRollover(ctx, w.rig.T, w.rig.CM, fs, w.rig.CM.TipState(), settings.Prices, settings.WalletAddress, st.Revision, proto4.RPCRefreshContractParams{
					ContractID: w.s.CID(cid), Allowance: types.Siacoins(100000), Collateral: types.Siacoins(200000)})
			}
			w.rig.T.WaitIdle()
			if err == nil {
				k.c.Oracle("lock-not-exclusive:"+kind+"-during-"+rpc, "a %s of the contract succeeded while a %s RPC in flight holds it locked", kind, rpc)
			}
		}
		n := len(w.cur)
		switch rpc {
		case "replenish":
			bals, _ := w.rig.EC.AccountBalances([]proto4.Account{rhpx.Acct(acctA), rhpx.Acct(acctB)})
			target := bals[0].Add(cur(777))
			if bals[1].Cmp(target) >= 0 {
				target = bals[1].Add(cur(777))
			}
			due := target.Sub(bals[0]).Add(target.Sub(bals[1]))
			k.attempt("replenish", "paused-"+kind, cid, true, due, func() rhpx.Result {
				return w.s.Replenish(rhpx.ReplArgs{Cid: cid, Accounts: []int{acctA, acctB}, Target: target, Chal: rhpx.Honest, Second: rhpx.Honest, CurIDs: w.cur, Between: between})
			})
		case "append":
			add := []int{w.nextID, w.nextID%w.maxID + 1}
			k.attempt("append", "paused-"+kind, cid, true, appendDue(prices, prices.TipHeight, st.Revision, 2), func() rhpx.Result {
				return w.s.Append(rhpx.AppendArgs{Cid: cid, Prices: ps, Chal: rhpx.Honest, Sectors: add, Second: rhpx.Honest, Between: between})
			})
		case "free":
			is := []uint64{uint64(n - 1), 0}
			k.attempt("free", "paused-"+kind, cid, true, freeDue(prices, 2), func() rhpx.Result {
				return w.s.Free(rhpx.FreeArgs{Cid: cid, Prices: ps, Chal: rhpx.Honest, Indices: is, Second: rhpx.Honest, Between: between})
			})
		}
		w.sync(cid)
		k.observe()
		// the contract is still the live one
		if st := k.state(cid); st.Renewed || !st.Revisable {
			k.c.Oracle("renewed-behind-a-held-lock", "after the paused %s the contract is renewed=%v revisable=%v", rpc, st.Renewed, st.Revisable)
		}
		k.run("fund", variants()[0], false)
		k.done(true, "kind:paused-revising", "paused:"+rpc, "inner:"+kind)
	}
}

// zeroLimits: a host whose limits are zero.  A zero MaxCollateral admits no collateral at all (and
// a zero MaxContractDuration no contract): formations, renewals and refreshes asking for more must
// be refused and change nothing.
func zeroLimits(idx int) func(w *worker) {
	return func(w *worker) {
		w.ensure(2)
		old := w.cid
		k := w.begin(fmt.Sprintf("zero-limits%d", idx), old)
		ctx := context.Background()
		saved := w.rig.SR.RHP4Settings()
		defer w.rig.SR.Update(saved)
		before := k.state(old)
		fs := func() *rhpx.FundSigner { return &rhpx.FundSigner{W: w.rig.W, PK: rhpx.Key(rhpx.RenterKeyID)} }
		judge := func(name string, err error, calls []rhpx.Call) {
			if err == nil {
				k.c.Oracle("out-of-range-request-accepted:"+name, "%s was accepted by a host whose limit is zero", name)
			}
			for _, c := range calls {
				if (c.Kind == "renew" || c.Kind == "add") && c.Err == nil {
					k.c.Oracle("out-of-range-contract-recorded:"+name, "%s: the contractor recorded a contract the host's settings do not admit", name)
				}
			}
			after := k.state(old)
			if after.Revision != before.Revision || after.Renewed || !after.Revisable {
				k.c.Oracle("out-of-range-request-changed-contract:"+name, "%s: the existing contract is revisable=%v renewed=%v", name, after.Revisable, after.Renewed)
			}
			k.observe()
		}
		for _, limit := range []string{"max-collateral-zero", "max-duration-zero"} {
			z := saved
			if limit == "max-collateral-zero" {
				z.MaxCollateral = types.ZeroCurrency
			} else {
				z.MaxContractDuration = 0
			}
			w.rig.SR.Update(z)
			settings, err := rhp4.RPCSettings(ctx, w.rig.T)
			if err != nil {
				continue
			}
			w.rig.Rec.Take()
			_, err = rhp4.RPCFormContract(ctx, w.rig.T, w.rig.CM, fs(), w.rig.CM.TipState(), settings.Prices, w.rig.HostKey.PublicKey(), settings.WalletAddress, proto4.RPCFormContractParams{
				RenterPublicKey: rhpx.Key(rhpx.RenterKeyID).PublicKey(), RenterAddress: w.rig.W.Address(),
				Allowance: types.Siacoins(100), Collateral: types.Siacoins(1), ProofHeight: w.rig.CM.Tip().Height + 100})
			w.rig.T.WaitIdle()
			judge("form:"+limit, err, w.rig.Rec.Take())
			_, err = rhp4.RPCRenewContract(ctx, w.rig.T, w.rig.CM, fs(), w.rig.CM.TipState(), settings.Prices, settings.WalletAddress, before.Revision, proto4.RPCRenewContractParams{
				ContractID: w.s.CID(old), Allowance: types.Siacoins(100000), Collateral: types.Siacoins(200000), ProofHeight: before.Revision.ProofHeight + 2})
			w.rig.T.WaitIdle()
			judge("renew:"+limit, err, w.rig.Rec.Take())
			if limit == "max-collateral-zero" { // a refresh does not extend the contract: only the collateral limit applies
				_, err = rhp4.RPCRefreshContractFullRollover(ctx, w.rig.T, w.rig.CM, fs(), w.rig.CM.TipState(), settings.Prices, settings.WalletAddress, before.Revision, proto4.RPCRefreshContractParams{
					ContractID: w.s.CID(old), Allowance: types.Siacoins(1000), Collateral: types.Siacoins(2000)})
				w.rig.T.WaitIdle()
				judge("refresh-full:"+limit, err, w.rig.Rec.Take())
				_, err = rhp4.RPCRefreshContractPartialRollover(ctx, w.rig.T, w.rig.CM, fs(), w.rig.CM.TipState(), settings.Prices, settings.WalletAddress, before.Revision, proto4.RPCRefreshContractParams{
					ContractID: w.s.CID(old), Allowance: types.Siacoins(1000), Collateral: types.Siacoins(2000)})
				w.rig.T.WaitIdle()
				judge("refresh-partial:"+limit, err, w.rig.Rec.Take())
			}
		}
		w.rig.SR.Update(saved)
		k.run("fund", variants()[0], false)
		k.done(true, "kind:zero-limits")
	}
}

// expired: past the proof height nothing is revisable.
func expired() func(w *worker) {
	return func(w *worker) {
		c, err := w.rig.Form(rhpx.Key(rhpx.RenterKeyID), types.Siacoins(1000), types.Siacoins(2000), 20)
		if err != nil {
			return
		}
		short := 9000
		w.s.AddContract(short, c.ID)
		saved, savedCur := w.cid, w.cur
		w.cid, w.cur = short, nil
		k := w.begin("expired", short)
		tl, ti := w.s.TipLine()
		k.c.Op(tl, ti)
		k.run("append", variants()[0], false)
		k.observe()
		w.rig.Mine(22)
		tl, ti = w.s.TipLine()
		k.c.Op(tl, ti)
		for _, rpc := range []string{"free", "append", "roots", "fund", "replA", "replP"} {
			v := variants()[0]
			v.commit = false
			k.run(rpc, v, false)
		}
		k.done(true, "kind:expired")
		w.cid, w.cur = saved, savedCur
	}
}


// bigJump: the chain grows by more than 1000 blocks in a single AddBlocks call, past the proof
// height of a contract.  The host's contractor has to follow the chain all the way (it fetches
// updates in batches of 1000), so that the contract is no longer revisable and nothing consensus
// would reject is signed.  Runs last: everything is expired afterwards.
func bigJump() func(w *worker) {
	return func(w *worker) {
		c, err := w.rig.Form(rhpx.Key(rhpx.RenterKeyID), types.Siacoins(1000), types.Siacoins(2000), 1060)
		if err != nil {
			return
		}
		long := 9100
		w.s.AddContract(long, c.ID)
		w.cid, w.cur = long, nil
		k := w.begin("big-jump", long)
		tl, ti := w.s.TipLine()
		k.c.Op(tl, ti)
		k.run("append", variants()[0], false)
		k.observe()
		settled, err := w.rig.Jump(1100) // contract proof height = old tip + 1060: inside the jump, beyond its first 1000 blocks
		if err != nil {
			k.c.Oracle("harness-setup", "jump: %v", err)
			k.done(false)
			return
		}
		if ect, _ := w.rig.EC.Tip(); !settled || ect != w.rig.CM.Tip() {
			k.c.Oracle("contractor-behind-chain", "after 1100 blocks added in one call the contractor stays at height %d, the chain is at %d", ect.Height, w.rig.CM.Tip().Height)
		}
		tl, ti = w.s.TipLine()
		k.c.Op(tl, ti)
		for _, rpc := range []string{"fund", "append", "free", "roots", "replA", "replP"} {
			v := variants()[0]
			v.commit = false
			k.run(rpc, v, false)
		}
		r, resp := w.s.Latest(long)
		k.c.Op(r.Op, r.Impl)
		if r.Cls == "ok" && resp.Revisable {
			k.c.Oracle("revisable-past-proof-height", "the host reports the contract revisable at chain height %d, proof height %d", w.rig.CM.Tip().Height, resp.Contract.ProofHeight)
		}
		k.done(true, "kind:big-jump")
	}
}

// concurrent: the same RPC issued by several renters at once on one contract (oracle only: the
// persisted revisions must still form a valid chain).
func concurrent(idx int) func(w *worker) {
	return func(w *worker) {
		w.ensure(3)
		cid := w.cid
		c := &vh.Case{Name: fmt.Sprintf("w%d-concurrent%d", w.id, idx)}
		k := &kase{w: w, c: c, cids: []int{cid}}
		before := k.state(cid)
		w.rig.Rec.Take()
		w.rig.Rec.Tee(true)
		var wg sync.WaitGroup
		oks := make([]bool, 6)
		prices, _ := w.s.Prices(w.s.GoodPrices())
		for i := range oks {
			wg.Add(1)
			go func(i int) {
				defer wg.Done()
				rev := rhp4.ContractRevision{ID: w.s.CID(cid), Revision: before.Revision}
				var err error
				switch i % 3 {
				case 0:
					_, err = rhp4.RPCFundAccounts(context.Background(), w.rig.T, w.rig.CM.TipState(), rhpx.Key(rhpx.RenterKeyID), rev, []proto4.AccountDeposit{{Account: rhpx.Acct(acctA), Amount: cur(uint64(100 + i))}})
				case 1:
					_, err = rhp4.RPCSectorRoots(context.Background(), w.rig.T, w.rig.CM.TipState(), prices, rhpx.Key(rhpx.RenterKeyID), rev, 0, 1)
				case 2:
					_, err = rhp4.RPCAppendSectors(context.Background(), w.rig.T, rhpx.Key(rhpx.RenterKeyID), w.rig.CM.TipState(), prices, rev, []types.Hash256{rhpx.RootHash(1 + i)})
				}
				oks[i] = err == nil
			}(i)
		}
		wg.Wait()
		w.rig.T.WaitIdle()
		calls := w.rig.Rec.TakeTee()
		w.rig.Rec.Take()
		prev := before.Revision
		n := 0
		for _, call := range calls {
			if (call.Kind == "revise" || call.Kind == "creditA") && call.Err == nil {
				n++
				rev := call.Revision
				if rev.RevisionNumber <= prev.RevisionNumber {
					c.Oracle("concurrent-revision-number", "concurrent RPCs persisted revision %d after %d", rev.RevisionNumber, prev.RevisionNumber)
				}
				due := rev.HostOutput.Value.Sub(prev.HostOutput.Value)
				k.relations("concurrent", prev, rev, due.Big())
				prev = rev
			}
		}
		succeeded := 0
		for _, ok := range oks {
			if ok {
				succeeded++
			}
		}
		if succeeded != n {
			c.Oracle("concurrent-success-count", "%d renters were told ok but %d revisions were persisted", succeeded, n)
		}
		if st := k.state(cid); st.Revision != prev {
			c.Oracle("concurrent-final-state", "the stored revision is not the last persisted one")
		}
		k.consensusOK("concurrent", cid)
		w.sync(cid)
		c.Nontrivial = true
		c.Tags = []string{"kind:concurrent", fmt.Sprintf("succeeded:%d", succeeded)}
		w.out <- c
	}
}

func Run(r *vh.Run) {
	r.Rule = "a case is one revising RPC (free, append, sector roots, fund, replenish accounts/pools) sent by a raw renter with one of 36 variants (good, aborted, challenge/revision signature garbage, by another key, replayed, over another revision number, payout, root, size, key, height or collateral, price table expired/foreign/altered) followed by an honest attempt; out-of-range parameters; histories mixing all; a renewal through the real client; expiry; concurrent issue; distinct by (rpc, variant) or history index"
	rng := vh.NewRNG(r.Seed)
	var jobs []func(w *worker)
	for _, rpc := range []string{"free", "append", "roots", "fund", "replA", "replP"} {
		for _, v := range variants() {
			jobs = append(jobs, one(rpc, v))
		}
	}
	for i := 0; i <= 6; i++ {
		jobs = append(jobs, params(i))
	}
	for i := 0; i < 8; i++ {
		jobs = append(jobs, interleaved(i), interleavedCredit(i))
	}
	for i := 0; i < 9; i++ {
		jobs = append(jobs, pausedRevising(i))
	}
	jobs = append(jobs, zeroLimits(0), zeroLimits(1))
	nh := r.Pick(3000, 40000)
	steps := r.Pick(25, 50)
	for i := 0; i < nh; i++ {
		jobs = append(jobs, history(i, rng.Fork(), steps))
		if i%50 == 7 {
			jobs = append(jobs, concurrent(i))
		}
		if i%100 == 13 {
			jobs = append(jobs, failedRenew(i, []string{"renew", "refresh-full", "refresh-partial"}[(i/100)%3]))
			if (i/100)%4 == 1 {
				jobs = append(jobs, renewLimit(i))
			}
			rk := []string{"refresh-full", "renew", "refresh-partial"}[(i/100)%3]
			jobs = append(jobs, renewal(i, rk, (i/100)%2 == 0))
		}
	}
	nw := min(runtime.NumCPU(), 12)
	var wg sync.WaitGroup
	errs := make([]error, nw)
	out := make(chan *vh.Case, 256)
	for wi := 0; wi < nw; wi++ {
		wg.Add(1)
		go func(wi int) {
			defer wg.Done()
			w, err := newWorker(wi)
			if err != nil {
				errs[wi] = err
				return
			}
			w.out = out
			defer w.rig.Close()
			for ji := wi; ji < len(jobs); ji += nw {
				jobs[ji](w)
			}
			// changes the chain tip for everything after it: last
			expired()(w)
			if wi == 0 {
				bigJump()(w)
			}
		}(wi)
	}
	go func() { wg.Wait(); close(out) }()
	for c := range out {
		r.Add(c)
	}
	for wi, err := range errs {
		if err != nil {
			c := &vh.Case{Name: fmt.Sprintf("w%d-setup", wi)}
			c.Oracle("harness-setup", "worker could not start: %v", err)
			r.Add(c)
		}
	}
	r.Extra("workers", nw)
	r.Extra("variants", len(variants()))
	r.Extra("non_revisable_targets", "renewed, expired (tip >= proof height), never formed: free, append, roots, fund, replenish accounts, replenish pools")
	r.Assume("price tables signed with the host key carry a TipHeight not above the chain tip")
	r.Assume("concurrent issue on one contract is checked by the oracle only (the model is sequential; the contract lock serialises handlers)")
}
