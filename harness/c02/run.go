package c02

import (
	"bytes"
	"fmt"
	"os"
	"runtime/debug"
	"strings"

	"go.sia.tech/core/consensus"

	"go.sia.tech/core/types"
	"go.sia.tech/coreutils/chain"
	"verifharness/chainx"
	"verifharness/kvx"
	"verifharness/vh"
)

// Menu is the transaction menu of the store checks: every basic kind and every contract kind,
// with the kinds that build and disturb expiration lists drawn more often.
func Menu() []string {
	m := append([]string(nil), chainx.BasicKinds...)
	m = append(m, chainx.ContractKinds...)
	m = append(m, "v1fc", "v1fc3", "v1fc3", "v1proof", "v1proof", "v1revw", "v1revw", "v1rev", "v2fc", "v2rev", "v2proof")
	chainx.EnableStoreKinds()
	m = append(m, chainx.StoreKinds...)
	m = append(m, "v1revdown")
	return m
}

// StoreNet draws hardfork heights that leave room for v1 contracts to be formed, revised, proved
// and to expire before the require height, and for reorgs to cross both heights.
func StoreNet(rng *vh.RNG) *chainx.Net {
	allows := []uint64{1, 3, 5, 8, 1000}
	allow := allows[rng.Intn(len(allows))]
	require := allow + 2 + uint64(rng.Intn(10))
	if allow == 1000 {
		require = 2000
	}
	return chainx.NewNet(rng, allow, require, uint64(2+rng.Intn(3)))
}

// Guarded runs f and converts a panic into an error string.
func Guarded(f func()) (msg string) {
	defer func() {
		if p := recover(); p != nil {
			msg = fmt.Sprint(p)
		}
	}()
	f()
	return ""
}

// History runs one tree in one schedule on a fresh node over db and registers the case.
func History(r *vh.Run, name string, t *chainx.Tree, ids *IDs, decls map[int]*Decl, sched [][]int, db chain.DB, tags ...string) *Rig {
	return HistoryVia(r, name, t, ids, decls, sched, nil, db, tags...)
}

// HistoryVia is History with a choice of ingestion path per batch: via[i] asks for
// AddValidatedV2Blocks (used when the batch qualifies as pre-validated).
func HistoryVia(r *vh.Run, name string, t *chainx.Tree, ids *IDs, decls map[int]*Decl, sched [][]int, via []bool, db chain.DB, tags ...string) *Rig {
	c := &vh.Case{Name: name, Model: fmt.Sprintf("elements node %d", t.Net.N.HardforkV2.RequireHeight)}
	// every other history runs its manager over the atomicity probe
	// (only over MemDB: a probe that is still waiting for the manager's lock when the submission
	// returns completes later, concurrently with the harness's own unlocked reads; MemDB reads do not
	// write, CacheDB.Bucket does)
	_, isMem := db.(*chain.MemDB)
	ProbeNext = isMem && (len(sched)+len(t.Blocks))%2 == 0
	rig, err := NewRig(c, t, ids, decls, db)
	ProbeNext = false
	if err != nil {
		c.Oracle("newdbstore-failed", "%v", err)
		r.Add(c)
		return nil
	}
	// supplements are also requested at intermediate tips, inside reorgs, but only at tips of one
	// height parity: two consecutive requests then hit different blocks at the same height (what a
	// value cached per height instead of per block gets wrong)
	rig.ProbeMod, rig.ProbeRem = 2, uint64(len(t.Blocks)+len(sched))%2
	rig.Prelude()
	rig.CompareWithTwin("after NewDBStore")
	for i, batch := range sched {
		res := rig.SubmitVia(batch, i < len(via) && via[i])
		if res == "panic" {
			if len(c.Fails) == 0 {
				c.Oracle("addblocks-panic", "AddBlocks panicked on batch %v: %s", batch, rig.PanicMsg)
			}
			break
		}
		rig.CompareWithTwin(fmt.Sprintf("after batch %d %v", i, batch))
		if rig.RevResTaint {
			break
		}
	}
	kinds := map[string]bool{}
	for _, b := range t.Blocks {
		for _, k := range b.Kinds {
			kinds[k] = true
		}
	}
	for k := range kinds {
		c.Tags = append(c.Tags, "kind:"+k)
	}
	c.Tags = append(c.Tags, tags...)
	if rig.Reverts > 0 {
		c.Tags = append(c.Tags, "has-revert")
	}
	if rig.V2Batches > 0 {
		c.Tags = append(c.Tags, "has-prevalidated-batch")
	}
	if rig.Probe != nil {
		c.Tags = append(c.Tags, "probed-store")
		r.CountTag("atomicity-probes", int(rig.Probe.Probes()))
	}
	if rig.UnstableRevs > 0 {
		c.Tags = append(c.Tags, "history:reverted-unstable-block")
	}
	if rig.Tainted {
		c.Tags = append(c.Tags, "history:exp-list-permuted")
	}
	crossed := false
	for _, b := range t.Blocks {
		if b.Height > t.Net.N.HardforkV2.RequireHeight {
			crossed = true
		}
	}
	if crossed {
		c.Tags = append(c.Tags, "crosses-require-height")
	}
	c.Nontrivial = rig.Reverts > 0
	c.Info = map[string]any{"blocks": len(t.Blocks), "batches": len(sched), "applies": rig.Applies, "reverts": rig.Reverts,
		"allow": t.Net.N.HardforkV2.AllowHeight, "require": t.Net.N.HardforkV2.RequireHeight}
	r.Add(c)
	return rig
}

// linearThenFork submits main first, then the fork: the fork must be heavier for a reorg.
func pathTo(t *chainx.Tree, id int) []int { return t.PathFromRoot(id) }

// DirectedExpOrder builds the history of the known finding deterministically: three contracts
// with one WindowEnd, a storage proof for one that is not at the head, that block reverted by a
// longer fork, the chain extended past the window end.
func DirectedExpOrder(r *vh.Run, rng *vh.RNG, name string) {
	net := chainx.NewNet(rng, 1000, 2000, 2)
	t := chainx.NewTree(net)
	tip := t.Mine(rng, 0, chainx.Spec{Kinds: []string{"v1pay"}, Dt: 1})
	var forkAt, proofBlk int
	msg := Guarded(func() {
		// contracts until some expiration list has three entries whose window is open
		for i := 0; i < 4; i++ {
			tip = t.Mine(rng, tip, chainx.Spec{Kinds: []string{"v1fc3", "v1fc"}, Dt: 1})
		}
		forkAt = tip
		for i := 0; i < 3; i++ {
			tip = t.Mine(rng, tip, chainx.Spec{Kinds: []string{"v1proof", "v1proof", "v1revw"}, Dt: 1})
		}
		proofBlk = tip
		alt := forkAt
		for i := 0; i < 12; i++ {
			alt = t.Mine(rng, alt, chainx.Spec{Kinds: []string{"v1pay"}, Dt: 1})
		}
		tip = alt
	})
	ids := NewIDs()
	if msg != "" {
		c := &vh.Case{Name: name}
		c.Oracle("generator-block-rejected", "%s", msg)
		r.Add(c)
		return
	}
	decls := Declare(t, ids)
	sched := [][]int{pathTo(t, proofBlk)}
	alt := pathTo(t, tip)
	for i := len(pathTo(t, forkAt)); i < len(alt); i += 3 {
		j := i + 3
		if j > len(alt) {
			j = len(alt)
		}
		sched = append(sched, alt[i:j])
	}
	History(r, name, t, ids, decls, sched, chain.NewMemDB(), "directed:exp-order")
}

// DirectedRevDown: contracts with far windows, then a block that pulls the WindowEnd of some of them
// in (a revision to an earlier window), that block reverted by a longer fork, the chain extended
// past both window ends.  Apply moves the expiration entry to the earlier height; the revert must
// move it back exactly like a revision that pushed the window out.
func DirectedRevDown(r *vh.Run, rng *vh.RNG, name string) {
	net := chainx.NewNet(rng, 1000, 2000, 2)
	t := chainx.NewTree(net)
	tip := t.Mine(rng, 0, chainx.Spec{Kinds: []string{"v1pay"}, Dt: 1})
	var forkAt, revBlk int
	hit := false
	msg := Guarded(func() {
		for i := 0; i < 2; i++ {
			tip = t.Mine(rng, tip, chainx.Spec{Kinds: []string{"v1fcfar", "v1fcfar"}, Dt: 1})
		}
		forkAt = tip
		for i := 0; i < 2; i++ {
			tip = t.Mine(rng, tip, chainx.Spec{Kinds: []string{"v1revdown", "v1revdown", "v1pay"}, Dt: 1})
			for _, k := range t.Blocks[tip].Kinds {
				if k == "v1revdown" {
					hit = true
				}
			}
		}
		revBlk = tip
		alt := forkAt
		for i := 0; i < 14; i++ {
			alt = t.Mine(rng, alt, chainx.Spec{Kinds: []string{"v1pay"}, Dt: 1})
		}
		tip = alt
	})
	ids := NewIDs()
	if msg != "" || !hit {
		c := &vh.Case{Name: name}
		if msg != "" {
			c.Oracle("generator-block-rejected", "%s", firstLine(msg))
		} else {
			c.Oracle("generator-shape", "no window-lowering revision could be built")
		}
		r.Add(c)
		return
	}
	sched := [][]int{pathTo(t, revBlk)}
	alt := pathTo(t, tip)
	for i := len(pathTo(t, forkAt)); i < len(alt); i += 4 {
		j := i + 4
		if j > len(alt) {
			j = len(alt)
		}
		sched = append(sched, alt[i:j])
	}
	History(r, name, t, ids, Declare(t, ids), sched, chain.NewMemDB(), "directed:rev-down")
}

// DirectedSameTxnBothForks: block A confirms a set of transactions T and is committed (its own
// AddBlocks call ends with a flush); then ONE AddBlocks call reorgs to a sibling A' that confirms
// the very same transactions, followed by blocks that spend / revise / prove what T created.  Inside
// that one flush window every element of T is deleted (revert of A), written again (A') and deleted
// again (spent) — on top of a value that is already committed.  Run on every backend, in particular
// the write cache over MemDB and over a Bolt file.
func DirectedSameTxnBothForks(r *vh.Run, rng *vh.RNG, name string) {
	net := chainx.NewNet(rng, 1000, 2000, 2)
	t := chainx.NewTree(net)
	tip := 0
	var a, a2, last int
	msg := Guarded(func() {
		for i := 0; i < 3; i++ {
			tip = t.Mine(rng, tip, chainx.Spec{Kinds: []string{"v1pay", "v1fc"}, Dt: 1})
		}
		a = t.Mine(rng, tip, chainx.Spec{Kinds: []string{"v1pay", "v1pay", "v1fc3", "v1sf", "v1eph"}, Dt: 1})
		var err error
		a2, err = t.MineWith(rng, tip, t.Blocks[a].Block.Transactions, nil, 2)
		if err != nil {
			panic(err)
		}
		last = a2
		for i := 0; i < 3; i++ {
			last = t.Mine(rng, last, chainx.Spec{Kinds: []string{"v1pay", "v1pay", "v1pay", "v1pay", "v1sf", "v1proof", "v1rev", "v1revw"}, Dt: 1})
		}
	})
	if msg != "" {
		c := &vh.Case{Name: name}
		c.Oracle("generator-block-rejected", "%s", firstLine(msg))
		r.Add(c)
		return
	}
	// how many elements created by T are spent again on the new fork (shape check, from the twins' diffs)
	ids := NewIDs()
	decls := Declare(t, ids)
	created := map[int]bool{}
	for _, d := range decls[a].Diffs {
		if d.Created && !d.Spent {
			created[d.ID] = true
		}
	}
	respent := 0
	for x := last; x != a2; x = t.Blocks[x].Parent {
		for _, d := range decls[x].Diffs {
			if d.Spent && !d.Created && created[d.ID] {
				respent++
			}
		}
	}
	sched := [][]int{pathTo(t, a), append([]int{a2}, pathTo(t, last)[len(pathTo(t, a2)):]...)}
	for _, kind := range []string{"mem", "cache", "cachebolt", "bolt"} {
		dir, err := os.MkdirTemp("", "c02-*")
		if err != nil {
			panic(err)
		}
		be, err := kvx.Open(kind, dir)
		if err != nil {
			panic(err)
		}
		rig := History(r, name+"/"+kind, t, ids, decls, sched, be.DB, "directed:same-txn-both-forks", "backend:"+kind, fmt.Sprintf("respent:%d", min(respent, 3)))
		be.Close()
		os.RemoveAll(dir)
		if rig != nil && (rig.Reverts == 0 || respent == 0) {
			c := &vh.Case{Name: name + "/" + kind + "/shape"}
			c.Oracle("generator-shape", "the directed history reverted %d blocks and re-spent %d elements of the repeated transactions", rig.Reverts, respent)
			r.Add(c)
		}
	}
}

// DirectedAncestorFault: a dependency fails in the middle of a reorg.  Every submission is made with
// a one-shot failure of Store.AncestorTimestamp armed for the first call the manager makes after a
// store operation (inside applyTip of a later block of the reorg): the reorg fails and is rolled
// back.  The same batch is then submitted again without the fault.  After both, everything the
// store serves — in particular the state stored for every best-chain block — must equal a linear
// node's: a failed step may not leave a block that looks applied (supplement present) without its
// complete state.
func DirectedAncestorFault(r *vh.Run, rng *vh.RNG, name string) {
	net := StoreNet(rng)
	var t *chainx.Tree
	cfg := chainx.GenCfg{Main: 7 + rng.Intn(5), Forks: 3, MaxBranch: 6, Kinds: Menu(), TxPerBlk: 2}
	if msg := Guarded(func() { t = chainx.GenTree(rng, net, cfg) }); msg != "" {
		c := &vh.Case{Name: name}
		c.Oracle("generator-block-rejected", "%s", firstLine(msg))
		r.Add(c)
		return
	}
	ids := NewIDs()
	decls := Declare(t, ids)
	c := &vh.Case{Name: name, Model: fmt.Sprintf("elements node %d", t.Net.N.HardforkV2.RequireHeight), Tags: []string{"directed:ancestor-fault"}}
	rig, err := NewRig(c, t, ids, decls, chain.NewMemDB())
	if err != nil {
		c.Oracle("newdbstore-failed", "%v", err)
		r.Add(c)
		return
	}
	rig.Prelude()
	// leaf paths one after the other, each in one batch: every batch after the first is a reorg of
	// several blocks (when it is heavier)
	for _, leaf := range t.Leaves() {
		if !t.AllValid(leaf) {
			continue
		}
		batch := pathTo(t, leaf)
		rig.FailAncestor = true
		before := rig.AncestorFailed
		if rig.Submit(batch) == "panic" {
			c.Oracle("addblocks-panic", "AddBlocks panicked on batch %v with AncestorTimestamp failing once: %s", batch, rig.PanicMsg)
			break
		}
		rig.FailAncestor = false
		rig.CompareWithTwin(fmt.Sprintf("after batch %v (AncestorTimestamp failed %d time(s))", batch, rig.AncestorFailed-before))
		if rig.AncestorFailed == before {
			continue
		}
		if rig.Submit(batch) == "panic" {
			c.Oracle("addblocks-panic", "AddBlocks panicked when batch %v was submitted again after the failed reorg: %s", batch, rig.PanicMsg)
			break
		}
		rig.CompareWithTwin(fmt.Sprintf("after resubmitting batch %v (its reorg had failed on AncestorTimestamp)", batch))
	}
	c.Nontrivial = rig.AncestorFailed > 0
	c.Info = map[string]any{"ancestor_failures": rig.AncestorFailed, "applies": rig.Applies, "reverts": rig.Reverts}
	r.CountTag("ancestor-timestamp-failures-injected", rig.AncestorFailed)
	r.Add(c)
}

// DirectedRequireHeight: a v1 contract whose window ends exactly at the require height; the chain
// must advance past it (regression of the SupplementTipBlock guard, fixed in 98a2b29).
func DirectedRequireHeight(r *vh.Run, rng *vh.RNG, name string) {
	net := chainx.NewNet(rng, 2, 6, 2)
	t := chainx.NewTree(net)
	c := &vh.Case{Name: name, Tags: []string{"directed:require-height"}}
	tip := 0
	msg := Guarded(func() {
		tip = t.Mine(rng, tip, chainx.Spec{Kinds: []string{"v1pay"}, Dt: 1})
		tip = t.Mine(rng, tip, chainx.Spec{Kinds: []string{"v1fcreq", "v1fcreq"}, Dt: 1})
		for i := 0; i < 8; i++ {
			tip = t.Mine(rng, tip, chainx.Spec{Kinds: []string{"v2pay"}, Dt: 1})
		}
	})
	hit := false
	for _, b := range t.Blocks {
		for _, k := range b.Kinds {
			if k == "v1fcreq" {
				hit = true
			}
		}
	}
	c.Nontrivial = hit
	if msg != "" {
		if strings.Contains(msg, "v1 block supplements are not allowed") {
			c.Oracle(ClassReqHeight, "a v1 contract with WindowEnd == RequireHeight makes the store supplement the first v2-only block with it; no block at the require height can be applied: %s", msg)
		} else {
			c.Oracle("generator-block-rejected", "%s", msg)
		}
		r.Add(c)
		return
	}
	if !hit {
		c.Oracle("generator-no-contract", "the directed case formed no contract ending at the require height")
	}
	r.Add(c)
	ids := NewIDs()
	History(r, name+"/history", t, ids, Declare(t, ids), [][]int{pathTo(t, tip)}, chain.NewMemDB(), "directed:require-height")
}

// DirectedRevisedResolved: a block that revises and storage-proves one contract (possible exactly
// at height == WindowStart), applied and then reverted by a longer fork.
func DirectedRevisedResolved(r *vh.Run, rng *vh.RNG, name string, moveWindow bool) {
	net := chainx.NewNet(rng, 1000, 2000, 2)
	t := chainx.NewTree(net)
	kind := "v1revproof"
	if moveWindow {
		kind = "v1revwproof"
	}
	c := &vh.Case{Name: name, Tags: []string{"directed:" + kind}}
	tip := t.Mine(rng, 0, chainx.Spec{Kinds: []string{"v1pay"}, Dt: 1})
	var target, forkAt int
	found := false
	msg := Guarded(func() {
		for i := 0; i < 3; i++ {
			tip = t.Mine(rng, tip, chainx.Spec{Kinds: []string{"v1fc", "v1fc3", "v1fc"}, Dt: 1})
		}
		for i := 0; i < 8 && !found; i++ {
			forkAt = tip
			tip = t.Mine(rng, tip, chainx.Spec{Kinds: []string{kind}, Dt: 1})
			for _, k := range t.Blocks[tip].Kinds {
				if k == kind {
					found, target = true, tip
				}
			}
		}
	})
	if msg != "" {
		c.Nontrivial = true
		if strings.Contains(msg, "missing file contract expiration") {
			c.Oracle(ClassRevRes, "a block that revises (moving WindowEnd) and storage-proves the same v1 contract passes ValidateBlock and then panics in DBStore.applyElements: %s", firstLine(msg))
		} else {
			c.Oracle("generator-block-rejected", "%s", firstLine(msg))
		}
		r.Add(c)
		return
	}
	if !found {
		c.Tags = append(c.Tags, "directed:not-reached")
		r.Add(c)
		return
	}
	alt := forkAt
	for i := 0; i < 3; i++ {
		alt = t.Mine(rng, alt, chainx.Spec{Kinds: []string{"v1pay"}, Dt: 1})
	}
	ids := NewIDs()
	History(r, name, t, ids, Declare(t, ids), [][]int{pathTo(t, target), pathTo(t, alt)}, chain.NewMemDB(), "directed:"+kind)
}

// DirectedCheckpoint: a store initialised from a v2 checkpoint above the require height
// (NewDBStoreAtCheckpoint) sees forks and reorgs above the checkpoint; everything it serves must
// equal a checkpoint store that was fed the best chain linearly, its tip state must equal the
// state of a node that replayed the chain from genesis, and every revert must restore the
// snapshot taken before the block was applied.
func DirectedCheckpoint(r *vh.Run, rng *vh.RNG, name string) {
	net := chainx.NewNet(rng, 1, uint64(1+rng.Intn(3)), 2)
	t := chainx.NewTree(net)
	kinds := []string{"v2pay", "v2eph", "v2sf", "v2fc", "v2rev", "v2renew", "v2proof", "v2expire"}
	spec := func() chainx.Spec {
		var ks []string
		for n := rng.Intn(3); n > 0; n-- {
			ks = append(ks, kinds[rng.Intn(len(kinds))])
		}
		return chainx.Spec{Kinds: ks, Dt: 1 + rng.Intn(3)}
	}
	tip := 0
	var main []int
	for i := 0; i < 8+rng.Intn(4); i++ {
		tip = t.Mine(rng, tip, spec())
		main = append(main, tip)
	}
	req := int(net.N.HardforkV2.RequireHeight)
	cpPos := req + 1 + rng.Intn(2) // index into main: height cpPos+1 > require
	cp := main[cpPos]
	for f := 0; f < 3; f++ {
		at := main[cpPos+rng.Intn(len(main)-cpPos)]
		for n := 1 + rng.Intn(5); n > 0; n-- {
			at = t.Mine(rng, at, spec())
		}
	}
	full := t.Twin(t.Blocks[cp].Parent)
	parentState := full.CM.TipState()
	open := func(db chain.DB) func() (*chain.DBStore, consensus.State, error) {
		return func() (*chain.DBStore, consensus.State, error) {
			return chain.NewDBStoreAtCheckpoint(db, parentState, t.Blocks[cp].Block, nil)
		}
	}
	c := &vh.Case{Name: name, Tags: []string{"directed:checkpoint"}}
	ids := NewIDs()
	decls := Declare(t, ids)
	db := chain.NewMemDB()
	rig, err := NewRigWith(c, t, ids, decls, db, open(db))
	if err != nil {
		c.Oracle("newdbstore-at-checkpoint-failed", "%v", err)
		r.Add(c)
		return
	}
	cpHeight := t.Blocks[cp].Height
	var sched [][]int
	for _, batch := range t.Schedule(rng) {
		var b []int
		for _, id := range batch {
			if t.Blocks[id].Height > cpHeight {
				b = append(b, id)
			}
		}
		if len(b) > 0 {
			sched = append(sched, b)
		}
	}
	compare := func(when string) {
		tipIdx := rig.Node.CM.Tip()
		tid, ok := t.Lookup(tipIdx.ID)
		if !ok {
			c.Oracle("tip-not-a-valid-block", "%s: unknown tip", when)
			return
		}
		// the linear checkpoint twin
		tdb := chain.NewMemDB()
		ts, ttip, err := chain.NewDBStoreAtCheckpoint(tdb, parentState, t.Blocks[cp].Block, nil)
		if err != nil {
			panic(err)
		}
		tcm := chain.NewManager(ts, ttip)
		for _, id := range t.Ancestry(tid) {
			if t.Blocks[id].Height > cpHeight {
				if err := tcm.AddBlocks([]types.Block{t.Blocks[id].Block}); err != nil {
					c.Oracle("checkpoint-twin-rejects-valid-block", "%s: block %d: %v", when, id, err)
					return
				}
			}
		}
		if tcm.Tip() != tipIdx {
			// the node under test may legitimately sit on another tip only if the twin's chain is not heavier
			c.Oracle("checkpoint-twin-tip-differs", "%s: linear checkpoint node is at %v, node under test at %v", when, tcm.Tip(), tipIdx)
			return
		}
		a, b := Canon(kvx.Dump(db)), Canon(kvx.Dump(tdb))
		best := map[string]bool{}
		for h := cpHeight; h <= tipIdx.Height; h++ {
			ci, _ := rig.Node.CM.BestIndex(h)
			best[string(ci.ID[:])] = true
		}
		for _, bucket := range kvx.Buckets {
			x, y := a[bucket], b[bucket]
			if bucket == bBlocks || bucket == bState {
				x, y = restrict(x, best), restrict(y, best)
			}
			if d := kvx.DiffBucket(x, y); d != "" {
				c.Oracle("checkpoint-bucket-differs-from-twin:"+bucket, "%s: %s", when, d)
			}
		}
		if !bytes.Equal(encode(rig.Node.CM.TipState()), encode(tcm.TipState())) {
			c.Oracle("checkpoint-tip-state-differs-from-twin", "%s", when)
		}
		// and the state equals the one a node replaying from genesis reaches
		if !bytes.Equal(encode(rig.Node.CM.TipState()), encode(t.Twin(tid).CM.TipState())) {
			c.Oracle("checkpoint-tip-state-differs-from-genesis-replay", "%s: tip %d", when, tid)
		}
		for _, bucket := range []string{bSC, bSF, bFC, bTree} {
			if len(a[bucket]) != 0 {
				c.Oracle("checkpoint-store-touches-elements:"+bucket, "%s: %d entries in %s above the require height", when, len(a[bucket]), bucket)
			}
		}
	}
	compare("after NewDBStoreAtCheckpoint")
	for i, batch := range sched {
		if res := rig.Submit(batch); res == "panic" {
			c.Oracle("addblocks-panic", "AddBlocks panicked on batch %v: %s", batch, rig.PanicMsg)
			break
		}
		compare(fmt.Sprintf("after batch %d %v", i, batch))
	}
	c.Nontrivial = rig.Reverts > 0
	if rig.Reverts > 0 {
		c.Tags = append(c.Tags, "has-revert")
	}
	c.Info = map[string]any{"checkpoint_height": cpHeight, "require": req, "applies": rig.Applies, "reverts": rig.Reverts}
	r.Add(c)
}

// DirectedSideThenValidated: above the require height the node sits on branch A; the first blocks
// of a competing branch B arrive through AddBlocks while B is still lighter (stored as side blocks
// with header-level states); then the whole of B, now heavier, arrives through
// AddValidatedV2Blocks and triggers the reorg; finally a still heavier branch C that forks off one
// of those early B blocks arrives through AddBlocks, so the node reverts down to that block and
// resumes from the state it has stored for it.
func DirectedSideThenValidated(r *vh.Run, rng *vh.RNG, name string) {
	t, sched, via := SideThenValidatedShape(rng)
	ids := NewIDs()
	rig := HistoryVia(r, name, t, ids, Declare(t, ids), sched, via, chain.NewMemDB(), "directed:side-then-prevalidated")
	if rig != nil && rig.V2Batches == 0 {
		c := &vh.Case{Name: name + "/shape"}
		c.Oracle("generator-shape", "the directed history did not submit a pre-validated batch")
		r.Add(c)
	}
}

// SideThenValidatedShape builds the tree, the schedule and the ingestion paths of
// DirectedSideThenValidated.
func SideThenValidatedShape(rng *vh.RNG) (*chainx.Tree, [][]int, []bool) {
	net := chainx.NewNet(rng, 1, uint64(1+rng.Intn(2)), 2)
	t := chainx.NewTree(net)
	kinds := []string{"v2pay", "v2eph", "v2sf", "v2fc", "v2rev", "v2proof"}
	spec := func() chainx.Spec {
		var ks []string
		for n := 1 + rng.Intn(2); n > 0; n-- {
			ks = append(ks, kinds[rng.Intn(len(kinds))])
		}
		return chainx.Spec{Kinds: ks, Dt: 1 + rng.Intn(2)}
	}
	mine := func(at, n int) []int {
		var out []int
		for i := 0; i < n; i++ {
			at = t.Mine(rng, at, spec())
			out = append(out, at)
		}
		return out
	}
	req := int(net.N.HardforkV2.RequireHeight)
	trunk := mine(0, req+1+rng.Intn(2)) // ends above the require height
	fork := trunk[len(trunk)-1]
	la := 3 + rng.Intn(2)
	a := mine(fork, la)
	b := mine(fork, la+2+rng.Intn(2))
	x := 1 + rng.Intn(2) // b[:x] arrive early as side blocks; C forks off b[x-1]
	cb := mine(b[x-1], len(b)-x+2+rng.Intn(2))
	return t, [][]int{trunk, a, b[:x], b, cb}, []bool{false, false, false, true, false}
}

func firstLine(s string) string {
	if i := strings.IndexByte(s, '\n'); i >= 0 {
		return s[:i]
	}
	return s
}

// fakeTreeDB answers every Tree read with a dummy node and records the keys read.
type fakeTreeDB struct {
	chain.DB
	reads [][]byte
}
type fakeTreeBucket struct {
	chain.DBBucket
	db *fakeTreeDB
}

func (b fakeTreeBucket) Get(key []byte) []byte {
	b.db.reads = append(b.db.reads, append([]byte(nil), key...))
	return make([]byte, 32)
}
func (d *fakeTreeDB) Bucket(name []byte) chain.DBBucket {
	b := d.DB.Bucket(name)
	if string(name) == bTree && b != nil {
		return fakeTreeBucket{b, d}
	}
	return b
}

// TreeCase compares treeKey and the positions getElementProof reads with the model on
// boundary-heavy samples (powers of two and their neighbours).
func TreeCase(r *vh.Run, rng *vh.RNG) {
	n, genesis := chainx.NewNet(rng, 1000, 2000, 2), types.Block{}
	_ = genesis
	fdb := &fakeTreeDB{DB: chain.NewMemDB()}
	store, _, err := chain.NewDBStore(fdb, n.N, n.Genesis, nil)
	if err != nil {
		panic(err)
	}
	c := &vh.Case{Name: "tree", Model: "elements tree", Nontrivial: true, Tags: []string{"tree-bucket"}}
	be32 := func(k []byte) uint32 { return uint32(k[0])<<24 | uint32(k[1])<<16 | uint32(k[2])<<8 | uint32(k[3]) }
	for row := uint64(0); row < 32; row++ {
		cols := []uint64{0, 1, 2, 3, (1 << (31 - row)) - 1, (1 << (31 - row)) / 2, uint64(rng.Intn(1 << 20))}
		for _, col := range cols {
			if col >= 1<<(31-row) {
				continue
			}
			c.Op(fmt.Sprintf("key %d %d", row, col), fmt.Sprint(be32(store.VerifTreeKey(row, col))))
		}
	}
	var sizes []uint64
	for e := uint(0); e <= 20; e++ {
		p := uint64(1) << e
		sizes = append(sizes, p, p+1)
		if p > 1 {
			sizes = append(sizes, p-1)
		}
	}
	for i := 0; i < r.Pick(40, 400); i++ {
		sizes = append(sizes, 1+uint64(rng.Intn(1<<uint(1+rng.Intn(22)))))
	}
	for _, size := range sizes {
		leaves := []uint64{0, size - 1, size / 2, size/2 + 1, uint64(rng.Intn(int(size))), size}
		for _, leaf := range leaves {
			fdb.reads = nil
			_, err := store.VerifElementProof(leaf, size)
			if err != nil {
				c.Op(fmt.Sprintf("pos %d %d", leaf, size), "panic")
				continue
			}
			w := []string{"ok"}
			for _, k := range fdb.reads {
				w = append(w, fmt.Sprint(be32(k)))
			}
			c.Op(fmt.Sprintf("pos %d %d", leaf, size), strings.TrimSpace(strings.Join(w, " ")))
		}
	}
	r.Add(c)
}

// Safely runs one case producer; a panic of the real code outside the observed store calls (a
// supplement that cannot be built, a proof node that is missing, ...) is a failing input.
func Safely(r *vh.Run, name string, f func()) {
	defer func() {
		if p := recover(); p != nil {
			c := &vh.Case{Name: name + "/panic", Nontrivial: true}
			c.Oracle("panic-outside-store-ops", "the real code panicked while the case was built or audited: %s", firstLine(fmt.Sprint(p)))
			r.Add(c)
		}
	}()
	f()
}

func Run(r *vh.Run) {
	r.Rule = "a case = one fork tree of real blocks (random v2 allow/require heights; v1/v2 payments, ephemeral outputs, siafund spends, v1 contract formation / revision with and without window change / storage proof / expiry with several contracts per WindowEnd, v2 formation / revision / renewal / proof / expiration; 0-2 corrupted siblings) submitted to a fresh real Manager in one generated schedule, every store ApplyBlock/RevertBlock observed; non-trivial = the manager reverted at least one block; distinct = distinct op lists. Plus directed histories for the known classes and the Tree-bucket index arithmetic"
	// a write into bbolt's read-only mmap (or any other memory fault of the real code) becomes a
	// panic that the per-call recovers below turn into an oracle failure naming the history
	defer debug.SetPanicOnFault(debug.SetPanicOnFault(true))
	chainx.EnableRiskyKinds()
	rng := vh.NewRNG(r.Seed).Fork() // NewRNG(s) and NewRNG(s+1) are one step apart; Fork decorrelates the seeds
	trees := r.Pick(60, 1500)
	scheds := 2
	known := 0
	for i := 0; i < trees; i++ {
		trng := rng.Fork()
		Safely(r, fmt.Sprintf("tree%d", i), func() {
			net := StoreNet(trng)
			cfg := chainx.GenCfg{Main: 8 + trng.Intn(r.Pick(8, 14)), Forks: 2 + trng.Intn(3), MaxBranch: 3 + trng.Intn(r.Pick(5, 9)),
				Kinds: Menu(), TxPerBlk: 3, Corrupt: trng.Intn(3), Extend: 2}
			var t *chainx.Tree
			if msg := Guarded(func() { t = chainx.GenTree(trng, net, cfg) }); msg != "" {
				c := &vh.Case{Name: fmt.Sprintf("tree%d", i)}
				c.Oracle("generator-block-rejected", "a block built from valid transactions was rejected by (or crashed) a linear node: %s", firstLine(msg))
				r.Add(c)
				return
			}
			ids := NewIDs()
			decls := Declare(t, ids)
			for s := 0; s < scheds; s++ {
				if rig := History(r, fmt.Sprintf("tree%d/s%d", i, s), t, ids, decls, t.Schedule(trng), chain.NewMemDB()); rig != nil {
					known += rig.KnownHits
				}
			}
		})
	}
	for i := 0; i < r.Pick(2, 12); i++ {
		drng := rng.Fork()
		Safely(r, "directed-exp-order", func() { DirectedExpOrder(r, drng, fmt.Sprintf("directed-exp-order%d", i)) })
	}
	for i := 0; i < r.Pick(2, 12); i++ {
		wrng := rng.Fork()
		Safely(r, "directed-rev-down", func() { DirectedRevDown(r, wrng, fmt.Sprintf("directed-rev-down%d", i)) })
	}
	for i := 0; i < r.Pick(2, 10); i++ {
		srng := rng.Fork()
		Safely(r, "same-txn-both-forks", func() { DirectedSameTxnBothForks(r, srng, fmt.Sprintf("same-txn-both-forks%d", i)) })
	}
	for i := 0; i < r.Pick(3, 20); i++ {
		arng := rng.Fork()
		Safely(r, "ancestor-fault", func() { DirectedAncestorFault(r, arng, fmt.Sprintf("ancestor-fault%d", i)) })
	}
	drng := rng.Fork()
	Safely(r, "directed-require-height", func() { DirectedRequireHeight(r, drng, "directed-require-height") })
	for i := 0; i < r.Pick(1, 4); i++ {
		a, b := rng.Fork(), rng.Fork()
		Safely(r, "directed-revproof", func() { DirectedRevisedResolved(r, a, fmt.Sprintf("directed-revproof%d", i), false) })
		Safely(r, "directed-revwproof", func() { DirectedRevisedResolved(r, b, fmt.Sprintf("directed-revwproof%d", i), true) })
	}
	// one history on a real Bolt file and one on CacheDB, so that the dump and the store run on
	// every backend
	for _, kind := range []string{"cache", "bolt", "cachebolt"} {
		trng := rng.Fork()
		Safely(r, "backend-"+kind, func() {
			dir, err := os.MkdirTemp("", "c02-*")
			if err != nil {
				panic(err)
			}
			be, err := kvx.Open(kind, dir)
			if err != nil {
				panic(err)
			}
			net := StoreNet(trng)
			t := chainx.GenTree(trng, net, chainx.GenCfg{Main: 10, Forks: 3, MaxBranch: 6, Kinds: Menu(), TxPerBlk: 3})
			ids := NewIDs()
			History(r, "backend-"+kind, t, ids, Declare(t, ids), t.Schedule(trng), be.DB, "backend:"+kind)
			be.Close()
			os.RemoveAll(dir)
		})
	}
	for i := 0; i < r.Pick(4, 40); i++ {
		vrng := rng.Fork()
		Safely(r, "side-then-prevalidated", func() { DirectedSideThenValidated(r, vrng, fmt.Sprintf("side-then-prevalidated%d", i)) })
	}
	for i := 0; i < r.Pick(3, 40); i++ {
		crng := rng.Fork()
		Safely(r, "checkpoint", func() { DirectedCheckpoint(r, crng, fmt.Sprintf("checkpoint%d", i)) })
	}
	trng := rng.Fork()
	Safely(r, "tree", func() { TreeCase(r, trng) })
	r.Extra("known_class_instances", known)
	r.Assume("consensus (ValidateBlock/ApplyBlock/RevertBlock and the element diffs they produce) is a parameter: the model is fed the diffs core computes on a linear twin")
	r.Assume("Merkle proof values and state hashes are compared with the linear twin (oracle), not modelled")
	r.Assume("the accumulator has fewer than 2^16 leaves in generated histories (live Tree nodes are enumerated)")
}
