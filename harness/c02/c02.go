// Package c02: the chain store depends only on the best chain, not on the reorgs witnessed.
//
// Fork trees of real blocks carrying every element-changing transaction kind are submitted to a
// real Manager whose Store is wrapped so that every ApplyBlock / RevertBlock the manager performs
// is observed.  (T) after each of them the key sets of every bucket, every expiration list and
// the best index (a dump through the chain.DB interface) are compared with the Lean model of
// the store (lean/Verif/Model/Elements.lean), which is fed the per-block element diffs computed
// on independent linear twins.  (O) after every submission every bucket is compared byte by
// byte with a linear twin of the best chain, together with the supplements the store hands out;
// every revert is compared with a snapshot taken before the block was applied.
package c02

import (
	"bytes"
	"encoding/binary"
	"fmt"
	"runtime/debug"
	"sort"
	"strings"
	"time"

	"go.sia.tech/core/consensus"
	"go.sia.tech/core/types"
	"go.sia.tech/coreutils/chain"
	"verifharness/chainx"
	"verifharness/kvx"
	"verifharness/vh"
)

func init() { vh.Register("C02", Run) }

const (
	ClassExpOrder   = "exp-order-after-mid-list-revert"
	ClassRevRes     = "v1-revised-and-resolved-in-one-block"
	ClassReqHeight  = "supplement-at-require-height"
	bFC, bSC, bSF   = "FileContracts", "SiacoinElements", "SiafundElements"
	bMain, bTree    = "MainChain", "Tree"
	bBlocks, bState = "Blocks", "States"
)

// MDiff is one element diff at the level of the model.
type MDiff struct {
	Kind    byte // 'c' siacoin, 'f' siafund, 'x' contract
	ID      int
	Created bool
	Spent   bool
	WE, RN  uint64
	HasRev  bool
	RWE     uint64
	RRN     uint64
	Expiry  bool // resolved by the window passing (the store decides these)
}

func b01(b bool) int {
	if b {
		return 1
	}
	return 0
}

func (d MDiff) String() string {
	rwe, rrn := "-", "-"
	if d.HasRev {
		rwe, rrn = fmt.Sprint(d.RWE), fmt.Sprint(d.RRN)
	}
	return fmt.Sprintf("%c:%d:%d:%d:%d:%d:%s:%s", d.Kind, d.ID, b01(d.Created), b01(d.Spent), d.WE, d.RN, rwe, rrn)
}

// IDs assigns small naturals to element ids.
type IDs struct {
	m    map[types.Hash256]int
	next int
}

func NewIDs() *IDs { return &IDs{m: map[types.Hash256]int{}, next: 1} }
func (t *IDs) Of(h types.Hash256) int {
	if v, ok := t.m[h]; ok {
		return v
	}
	t.m[h] = t.next
	t.next++
	return t.next - 1
}
func (t *IDs) Lookup(h types.Hash256) (int, bool) { v, ok := t.m[h]; return v, ok }

type diffSource interface {
	SiacoinElementDiffs() []consensus.SiacoinElementDiff
	SiafundElementDiffs() []consensus.SiafundElementDiff
	FileContractElementDiffs() []consensus.FileContractElementDiff
}

// DiffsOf converts the diffs of an update, in the order applyElements processes them.
func DiffsOf(ids *IDs, u diffSource) []MDiff {
	var out []MDiff
	for _, d := range u.SiacoinElementDiffs() {
		out = append(out, MDiff{Kind: 'c', ID: ids.Of(types.Hash256(d.SiacoinElement.ID)), Created: d.Created, Spent: d.Spent})
	}
	for _, d := range u.SiafundElementDiffs() {
		out = append(out, MDiff{Kind: 'f', ID: ids.Of(types.Hash256(d.SiafundElement.ID)), Created: d.Created, Spent: d.Spent})
	}
	for _, d := range u.FileContractElementDiffs() {
		m := MDiff{Kind: 'x', ID: ids.Of(types.Hash256(d.FileContractElement.ID)), Created: d.Created, Spent: d.Resolved,
			WE: d.FileContractElement.FileContract.WindowEnd, RN: d.FileContractElement.FileContract.RevisionNumber}
		if d.Revision != nil {
			m.HasRev, m.RWE, m.RRN = true, d.Revision.WindowEnd, d.Revision.RevisionNumber
		}
		m.Expiry = d.Resolved && !d.Valid && !d.Created
		out = append(out, m)
	}
	return out
}

// ---- the expiration-list semantics of chain/db.go, restated for classification only ----

// ExpLists maps a height to the contract ids expiring there, in stored order.
type ExpLists map[uint64][]int

func (e ExpLists) Clone() ExpLists {
	c := ExpLists{}
	for h, l := range e {
		if len(l) > 0 {
			c[h] = append([]int(nil), l...)
		}
	}
	return c
}

func (e ExpLists) Equal(o ExpLists) bool {
	for h, l := range e {
		if len(l) > 0 && fmt.Sprint(l) != fmt.Sprint(o[h]) {
			return false
		}
	}
	for h, l := range o {
		if len(l) > 0 && fmt.Sprint(l) != fmt.Sprint(e[h]) {
			return false
		}
	}
	return true
}

// SameSets: the same ids at every height, in any order.
func (e ExpLists) SameSets(o ExpLists) bool {
	norm := func(x ExpLists) ExpLists {
		c := x.Clone()
		for _, l := range c {
			sort.Ints(l)
		}
		return c
	}
	return norm(e).Equal(norm(o))
}

func (e ExpLists) del(h uint64, id int) {
	l := e[h]
	for i, x := range l {
		if x == id {
			l[i] = l[len(l)-1]
			e[h] = l[:len(l)-1]
			return
		}
	}
}

// Apply mirrors applyElements on the expiration lists (append; swap-remove).
func (e ExpLists) Apply(ds []MDiff) {
	for _, d := range ds {
		switch {
		case d.Kind != 'x' || (d.Created && d.Spent):
		case d.Spent:
			e.del(d.WE, d.ID)
		case d.HasRev:
			if d.RWE != d.WE {
				e.del(d.WE, d.ID)
				e[d.RWE] = append(append([]int(nil), e[d.RWE]...), d.ID)
			}
		default:
			e[d.WE] = append(append([]int(nil), e[d.WE]...), d.ID)
		}
	}
}

// Revert mirrors revertElements on the diff list in the order handed over (prepend; swap-remove).
func (e ExpLists) Revert(ds []MDiff) {
	for _, d := range ds {
		switch {
		case d.Kind != 'x' || (d.Created && d.Spent):
		case d.Spent:
			e[d.WE] = append([]int{d.ID}, e[d.WE]...)
		case d.HasRev:
			if d.RWE != d.WE {
				e.del(d.RWE, d.ID)
				e[d.WE] = append([]int{d.ID}, e[d.WE]...)
			}
		default:
			e.del(d.WE, d.ID)
		}
	}
}

func reversed(ds []MDiff) []MDiff {
	out := make([]MDiff, len(ds))
	for i, d := range ds {
		out[len(ds)-1-i] = d
	}
	return out
}

// Decl is what the harness knows about a block independently of the node under test.
type Decl struct {
	Line     string  // the model's declaration
	Diffs    []MDiff // twin order, expiry diffs included
	Unstable bool    // ¬ExpStable relative to the linear store of the parent
	RevRes   bool    // carries a contract that is revised and resolved in this block
}

// Declare computes, on linear twins, the diffs of every block with a fully valid ancestry.
func Declare(t *chainx.Tree, ids *IDs) map[int]*Decl {
	out := map[int]*Decl{}
	var leaves []int
	isParent := map[int]bool{}
	for _, b := range t.Blocks[1:] {
		if t.AllValid(b.ID) {
			isParent[b.Parent] = true
		}
	}
	for _, b := range t.Blocks {
		if t.AllValid(b.ID) && !isParent[b.ID] {
			leaves = append(leaves, b.ID)
		}
	}
	for _, leaf := range leaves {
		tw := t.Twin(leaf)
		_, aus, err := tw.CM.UpdatesSince(types.ChainIndex{}, 1<<20)
		if err != nil {
			panic(err)
		}
		lin := ExpLists{}
		for _, au := range aus {
			id, _ := t.Lookup(au.Block.ID())
			ds := DiffsOf(ids, au.ApplyUpdate)
			applies := au.State.Index.Height <= t.Net.N.HardforkV2.RequireHeight
			if _, ok := out[id]; !ok {
				d := &Decl{Diffs: ds}
				var words []string
				for _, x := range ds {
					if !x.Expiry {
						words = append(words, x.String())
					}
					if x.Kind == 'x' && x.HasRev && x.Spent {
						d.RevRes = true
					}
				}
				b := t.Blocks[id]
				d.Line = strings.TrimSpace(fmt.Sprintf("blk %d %d %d %s", id, b.Parent, b.Height, strings.Join(words, " ")))
				if applies {
					after := lin.Clone()
					after.Apply(ds)
					after.Revert(reversed(ds))
					d.Unstable = !after.Equal(lin)
				}
				out[id] = d
			}
			if applies {
				lin.Apply(ds)
			}
		}
	}
	return out
}

// ---- observing the real store ----

// Obs renders a database image the way the Lean driver renders its store.
func Obs(t *chainx.Tree, ids *IDs, img kvx.Image) string {
	var height uint64
	if v := img[bMain]["Height"]; len(v) == 8 {
		height = binary.BigEndian.Uint64(v)
	}
	idx := make([]string, 0, height+1)
	tip := "?"
	for h := uint64(0); h <= height; h++ {
		var k [8]byte
		binary.BigEndian.PutUint64(k[:], h)
		v, ok := img[bMain][string(k[:])]
		s := "none"
		if ok && len(v) == 32 {
			if id, known := t.Lookup(types.BlockID(v)); known {
				s = fmt.Sprint(id)
			} else {
				s = "?"
			}
		}
		idx = append(idx, s)
		if h == height {
			tip = s
		}
	}
	// entries above the height key would be stale best-index entries
	for k := range img[bMain] {
		if len(k) == 8 && binary.BigEndian.Uint64([]byte(k)) > height {
			idx = append(idx, fmt.Sprintf("stale@%d", binary.BigEndian.Uint64([]byte(k))))
		}
	}
	set := func(bucket string) string {
		var l []int
		for k := range img[bucket] {
			if id, ok := ids.Lookup(types.Hash256([]byte(k))); ok && len(k) == 32 {
				l = append(l, id)
			} else {
				l = append(l, -1)
			}
		}
		sort.Ints(l)
		return joinInts(l, " ")
	}
	type fcRow struct {
		id     int
		we, rn uint64
	}
	var fcs []fcRow
	exp := map[uint64][]int{}
	for k, v := range img[bFC] {
		switch len(k) {
		case 32:
			var fce types.FileContractElement
			d := types.NewBufDecoder(v)
			fce.DecodeFrom(d)
			id, ok := ids.Lookup(types.Hash256([]byte(k)))
			if !ok || d.Err() != nil {
				id = -1
			}
			fcs = append(fcs, fcRow{id, fce.FileContract.WindowEnd, fce.FileContract.RevisionNumber})
		case 8:
			h := binary.BigEndian.Uint64([]byte(k))
			for i := 0; i+32 <= len(v); i += 32 {
				id, ok := ids.Lookup(types.Hash256(v[i : i+32]))
				if !ok {
					id = -1
				}
				exp[h] = append(exp[h], id)
			}
		}
	}
	sort.Slice(fcs, func(i, j int) bool { return fcs[i].id < fcs[j].id })
	var fcw []string
	for _, r := range fcs {
		fcw = append(fcw, fmt.Sprintf("%d:%d:%d", r.id, r.we, r.rn))
	}
	var hs []uint64
	for h, l := range exp {
		if len(l) > 0 {
			hs = append(hs, h)
		}
	}
	sort.Slice(hs, func(i, j int) bool { return hs[i] < hs[j] })
	var ew []string
	for _, h := range hs {
		ew = append(ew, fmt.Sprintf("%d=[%s]", h, joinInts(exp[h], ",")))
	}
	return fmt.Sprintf("h %d tip %s p 0 sc %s sf %s fc %s exp %s idx %s", height, tip, set(bSC), set(bSF),
		strings.Join(fcw, " "), strings.Join(ew, " "), strings.Join(idx, " "))
}

func joinInts(l []int, sep string) string {
	w := make([]string, len(l))
	for i, x := range l {
		w[i] = fmt.Sprint(x)
	}
	return strings.Join(w, sep)
}

// ExpOf extracts the expiration lists of an image.
func ExpOf(ids *IDs, img kvx.Image) ExpLists {
	e := ExpLists{}
	for k, v := range img[bFC] {
		if len(k) != 8 {
			continue
		}
		h := binary.BigEndian.Uint64([]byte(k))
		for i := 0; i+32 <= len(v); i += 32 {
			id, ok := ids.Lookup(types.Hash256(v[i : i+32]))
			if !ok {
				id = -1
			}
			e[h] = append(e[h], id)
		}
	}
	return e
}

// Canon drops what the store does not serve: expiration keys with an empty value (left behind by
// swap-removal of the last id; ExpiringFileContractIDs returns nothing for them either way).
func Canon(img kvx.Image) kvx.Image {
	out := kvx.Image{}
	for b, m := range img {
		c := map[string][]byte{}
		for k, v := range m {
			if b == bFC && len(k) == 8 && len(v) == 0 {
				continue
			}
			c[k] = v
		}
		out[b] = c
	}
	return out
}

// liveTree returns the Tree entries getElementProof can read in a tree of n leaves.
func liveTree(store *chain.DBStore, img kvx.Image, n uint64) map[string][]byte {
	out := map[string][]byte{}
	if n > 1<<16 {
		n = 1 << 16
	}
	for leaf := uint64(0); leaf < n; leaf++ {
		x := leaf ^ n
		plen := 0
		for x > 1 {
			x >>= 1
			plen++
		}
		for i := 0; i < plen; i++ {
			k := string(store.VerifTreeKey(uint64(i), (leaf>>uint(i))^1))
			if v, ok := img[bTree][k]; ok {
				out[k] = v
			} else {
				out[k] = nil // a live node that is missing
			}
		}
	}
	return out
}

// obsStore is the Store handed to the Manager: the real DBStore, with ApplyBlock / RevertBlock
// observed.
type obsStore struct {
	chain.Store // the real *chain.DBStore, or a chainx.ProbeStore over it
	before      func(apply bool, s consensus.State, blockID types.BlockID)
	after       func(apply bool, s consensus.State, blockID types.BlockID, ds []MDiff, panicked bool)
	ids         *IDs
	// onPanic receives the text of a panic (or memory fault) raised inside the real store call
	onPanic func(msg string)
	// failAncestor, when it returns true, makes this AncestorTimestamp call report "not found"
	failAncestor func() bool
	// onCall announces the start (done=false) and the end of a Store.AddState / Store.AddBlock call
	onCall func(name string, done bool)
}

func (o *obsStore) panicked(apply bool, s consensus.State, id types.BlockID, p any) {
	// p was recovered by the deferred function of the store call: record it, observe, re-raise
	if o.onPanic != nil {
		o.onPanic(fmt.Sprint(p))
	}
	o.after(apply, s, id, nil, true)
	panic(p)
}

// AddState / AddBlock are announced (C03 checks that no commit reaches the database inside them).
func (o *obsStore) AddState(cs consensus.State) {
	if o.onCall != nil {
		o.onCall("AddState", false)
		defer o.onCall("AddState", true)
	}
	o.Store.AddState(cs)
}

func (o *obsStore) AddBlock(b types.Block, bs *consensus.V1BlockSupplement) {
	if o.onCall != nil {
		o.onCall("AddBlock", false)
		defer o.onCall("AddBlock", true)
	}
	o.Store.AddBlock(b, bs)
}

// AncestorTimestamp can be made to fail once (a dependency failing in the middle of a reorg).
func (o *obsStore) AncestorTimestamp(id types.BlockID) (time.Time, bool) {
	if o.failAncestor != nil && o.failAncestor() {
		return time.Time{}, false
	}
	return o.Store.AncestorTimestamp(id)
}

func (o *obsStore) ApplyBlock(s consensus.State, cau consensus.ApplyUpdate) {
	o.before(true, s, s.Index.ID)
	done := false
	defer func() {
		if !done {
			o.panicked(true, s, s.Index.ID, recover())
		}
	}()
	o.Store.ApplyBlock(s, cau)
	done = true
	o.after(true, s, s.Index.ID, DiffsOf(o.ids, cau), false)
}

func (o *obsStore) RevertBlock(s consensus.State, cru consensus.RevertUpdate) {
	id := cru.ChainIndexElement().ID
	o.before(false, s, id)
	done := false
	defer func() {
		if !done {
			o.panicked(false, s, id, recover())
		}
	}()
	o.Store.RevertBlock(s, cru)
	done = true
	o.after(false, s, id, DiffsOf(o.ids, cru), false)
}

// Rig is a real node whose store operations are observed.
type Rig struct {
	T     *chainx.Tree
	IDs   *IDs
	Decls map[int]*Decl
	Node  *chainx.Node
	C     *vh.Case

	snaps       map[int]kvx.Image // pre-apply snapshot of the latest application of a block
	applied     map[int][]MDiff   // the diffs of that application, as the node's own consensus call produced them
	Tainted     bool              // a reverted block left an expiration list permuted (the known class)
	RevResTaint bool              // a reverted block carried a revised-and-resolved contract
	Panicked    bool
	PanicMsg    string
	Probe       *chainx.ProbeStore // non-nil when the manager runs over the atomicity probe
	// FailAncestor arms a one-shot failure of Store.AncestorTimestamp at the first call the manager
	// makes after a store operation of the current submission (i.e. inside applyTip, mid-reorg)
	FailAncestor    bool
	AncestorFailed  int
	OnCall          func(name string, done bool) // start / end of the manager's Store.AddState and Store.AddBlock calls
	ExpectedPanic   string                       // a panic whose text contains this is the designed answer to an injected failure
	opsInSubmission int
	V2Batches       int // batches submitted through AddValidatedV2Blocks
	// intermediate-tip supplement probes: after a store operation that leaves the tip at a height h
	// with h % ProbeMod == ProbeRem (ProbeMod 0 = off)
	ProbeMod, ProbeRem uint64
	Probes             int
	Applies            int
	Reverts            int
	UnstableRevs       int
	KnownHits          int
	twins              map[int]*twinInfo
	preRevert          ExpLists

	// options used by C03
	Quiet    bool                          // pass store calls through without observing them
	OnBefore func(apply bool, blockID int) // called before the real ApplyBlock / RevertBlock
	// CommitMode: op lines carry the flush flag returned by OnFlag and observations end with the
	// durable image's height and tip (Durable)
	CommitMode bool
	OnFlag     func() bool
	OnAfter    func() // called when the observation of a store operation is complete
	Durable    func() string
	Tips       []int // working tip after every store operation
}

type twinInfo struct {
	nd  *chainx.Node
	img kvx.Image
}

// ProbeNext makes the next rig run its manager over a chainx.ProbeStore.
var ProbeNext bool

// NewRig opens a fresh node over db.
func NewRig(c *vh.Case, t *chainx.Tree, ids *IDs, decls map[int]*Decl, db chain.DB) (*Rig, error) {
	return NewRigWith(c, t, ids, decls, db, func() (*chain.DBStore, consensus.State, error) {
		return chain.NewDBStore(db, t.Net.N, t.Net.Genesis, nil)
	})
}

// NewRigWith is NewRig with a custom way of opening the store (e.g. at a checkpoint).
func NewRigWith(c *vh.Case, t *chainx.Tree, ids *IDs, decls map[int]*Decl, db chain.DB, open func() (*chain.DBStore, consensus.State, error)) (*Rig, error) {
	store, tip, err := open()
	if err != nil {
		return nil, err
	}
	r := &Rig{T: t, IDs: ids, Decls: decls, C: c, snaps: map[int]kvx.Image{}, applied: map[int][]MDiff{}, twins: map[int]*twinInfo{}}
	var inner chain.Store = store
	if ProbeNext {
		// the manager runs over the atomicity probe of chainx (see chainx/probe.go): while a
		// submission is in progress, other goroutines ask the manager for its tip from inside the
		// manager's own store calls and must not get an answer before the call returns
		ProbeNext = false
		r.Probe = &chainx.ProbeStore{DBStore: store}
		inner = r.Probe
	}
	os := &obsStore{Store: inner, ids: ids, before: r.before, after: r.after, onPanic: func(m string) { r.PanicMsg = firstLine(m) },
		onCall: func(name string, done bool) {
			if r.OnCall != nil {
				r.OnCall(name, done)
			}
		},
		failAncestor: func() bool {
			// only in the middle of a reorg: after at least one ApplyBlock/RevertBlock of this submission
			if !r.FailAncestor || r.opsInSubmission == 0 {
				return false
			}
			r.FailAncestor = false
			r.AncestorFailed++
			return true
		}}
	nd := &chainx.Node{Net: t.Net, DB: db, Store: store}
	nd.CM = chain.NewManager(os, tip)
	nd.CM.OnReorg(func(ci types.ChainIndex) { nd.Reorgs = append(nd.Reorgs, ci) })
	if r.Probe != nil {
		r.Probe.SetManager(nd.CM)
	}
	r.Node = nd
	return r, nil
}

func (r *Rig) before(apply bool, s consensus.State, blockID types.BlockID) {
	r.opsInSubmission++
	if r.OnBefore != nil {
		id, _ := r.T.Lookup(blockID)
		r.OnBefore(apply, id)
	}
	if r.Quiet {
		return
	}
	if apply {
		if id, ok := r.T.Lookup(blockID); ok {
			r.snaps[id] = kvx.Dump(r.Node.DB)
		}
	} else {
		r.preRevert = ExpOf(r.IDs, kvx.Dump(r.Node.DB))
	}
}

func (r *Rig) after(apply bool, s consensus.State, blockID types.BlockID, ds []MDiff, panicked bool) {
	if r.Quiet {
		if panicked {
			r.Panicked = true
		}
		return
	}
	if r.OnAfter != nil {
		defer r.OnAfter()
	}
	id, ok := r.T.Lookup(blockID)
	if !ok {
		r.C.Oracle("store-op-on-unknown-block", "the manager applied/reverted a block that was never submitted")
		return
	}
	verb := "revert"
	if apply {
		verb = "apply"
		r.Applies++
	} else {
		r.Reverts++
	}
	decl := r.Decls[id]
	if decl == nil {
		r.C.Oracle("invalid-block-applied", "the manager %ss block %d whose ancestry is not fully valid", verb, id)
		return
	}
	if panicked {
		r.Panicked = true
		if r.CommitMode {
			r.C.Op(fmt.Sprintf("%s %d %d", verb, id, b01(r.OnFlag())), "panic")
		} else {
			r.C.Op(fmt.Sprintf("%s %d", verb, id), "panic")
		}
		switch {
		case r.ExpectedPanic != "" && strings.Contains(r.PanicMsg, r.ExpectedPanic):
			// a failure the harness injected itself and to which a panic is the store's designed answer
		case strings.Contains(r.PanicMsg, "fault") || strings.Contains(r.PanicMsg, "invalid memory address"):
			// e.g. a write into the read-only mmap of a Bolt value returned by Get
			r.C.Oracle("store-memory-fault", "DBStore.%sBlock on block %d (kinds %v) faulted: %s (the store wrote through a slice it got from the database)", title(verb), id, r.T.Blocks[id].Kinds, r.PanicMsg)
		case decl.RevRes:
			r.KnownHits++
			r.C.Oracle(ClassRevRes, "DBStore.%sBlock panicked on block %d, which revises and storage-proves the same v1 contract: %s", title(verb), id, r.PanicMsg)
		default:
			r.C.Oracle("store-panic", "DBStore.%sBlock panicked on block %d (kinds %v): %s", title(verb), id, r.T.Blocks[id].Kinds, r.PanicMsg)
		}
		return
	}
	img := kvx.Dump(r.Node.DB)
	line := Obs(r.T, r.IDs, img)
	if apply {
		r.Tips = append(r.Tips, id)
	} else {
		r.Tips = append(r.Tips, r.T.Blocks[id].Parent)
	}
	// (after the revert has been classified below: a permuted expiration list taints the history)
	defer func() { r.probeSupplement(r.Tips[len(r.Tips)-1], img) }()
	if r.CommitMode {
		r.C.Op(fmt.Sprintf("%s %d %d", verb, id, b01(r.OnFlag())), line+" | durable "+r.Durable())
		if apply {
			r.applied[id] = ds
			return
		}
	} else if apply {
		r.applied[id] = ds
		r.C.Op(fmt.Sprintf("apply %d", id), line)
		return
	} else {
		r.C.Op(fmt.Sprintf("revert %d", id), fmt.Sprintf("%s stable %d", line, b01(!decl.Unstable)))
	}
	if decl.Unstable {
		r.UnstableRevs++
	}
	// apply-then-revert against the snapshot taken before the block was applied
	snap, ok := r.snaps[id]
	if !ok {
		return
	}
	elementsTouched := s.Index.Height <= r.T.Net.N.HardforkV2.RequireHeight
	want := r.preRevert.Clone()
	if elementsTouched {
		want.Revert(ds)
	}
	got := ExpOf(r.IDs, img)
	before := ExpOf(r.IDs, snap)
	switch {
	case !got.Equal(want):
		r.C.Oracle("exp-lists-after-revert-not-as-modelled", "after reverting block %d the expiration lists are %v; prepend/swap-remove on the lists before the revert gives %v", id, got, want)
	case got.Equal(before):
	case !got.SameSets(before):
		r.C.Oracle("exp-list-content-not-restored", "after reverting block %d the expiration lists are %v, before the block was applied they were %v", id, got, before)
	default:
		r.Tainted = true
		r.KnownHits++
		r.C.Oracle(ClassExpOrder, "reverting block %d (kinds %v) left the expiration lists %v, before the block they were %v", id, r.T.Blocks[id].Kinds, got, before)
	}
	a, b := Canon(snap), Canon(img)
	n := s.Elements.NumLeaves
	// the chain the store served before the block: its blocks and states must be untouched (other
	// entries of these buckets legitimately change: side-chain headers arrive, states are completed)
	prev := map[string]bool{}
	for k, v := range snap[bMain] {
		if len(k) == 8 && len(v) == 32 {
			prev[string(v)] = true
		}
	}
	proofsServed := s.Index.Height+1 < r.T.Net.N.HardforkV2.RequireHeight
	for _, bucket := range kvx.Buckets {
		var d string
		switch bucket {
		case bFC:
			// the lists were compared above; compare the elements
			d = kvx.DiffBucket(only(a[bucket], 32), only(b[bucket], 32))
		case bTree:
			if !proofsServed {
				continue
			}
			d = kvx.DiffBucket(liveTree(r.Node.Store, snap, n), liveTree(r.Node.Store, img, n))
		case bBlocks, bState:
			d = kvx.DiffBucket(restrict(a[bucket], prev), restrict(b[bucket], prev))
		default:
			d = kvx.DiffBucket(a[bucket], b[bucket])
		}
		if d == "" {
			continue
		}
		if decl.RevRes {
			r.RevResTaint = true
			r.KnownHits++
			r.C.Oracle(ClassRevRes, "reverting block %d, which revises and storage-proves the same v1 contract, does not restore bucket %s: %s", id, bucket, d)
			continue
		}
		r.C.Oracle("revert-does-not-restore:"+bucket, "after reverting block %d (kinds %v) bucket %s differs from the snapshot taken before it was applied: %s", id, r.T.Blocks[id].Kinds, bucket, d)
	}
}

func title(s string) string { return strings.ToUpper(s[:1]) + s[1:] }

func only(m map[string][]byte, klen int) map[string][]byte {
	out := map[string][]byte{}
	for k, v := range m {
		if len(k) == klen {
			out[k] = v
		}
	}
	return out
}

// TwinNode returns the (cached) linear twin of a fully valid block.
func (r *Rig) TwinNode(tip int) *chainx.Node { return r.twin(tip).nd }

// probeSupplement asks the store, at the tip a store operation inside a reorg has just produced,
// for the supplement of a synthetic v1 block that touches every stored element, and compares it
// with what a linear node of that tip hands out (elements and their Merkle proofs, trimmed to the
// tip's accumulator size).
func (r *Rig) probeSupplement(tid int, img kvx.Image) {
	if r.ProbeMod == 0 || r.Panicked || r.RevResTaint || !r.T.AllValid(tid) {
		return
	}
	tb := r.T.Blocks[tid]
	if tb.Height%r.ProbeMod != r.ProbeRem || tb.Height+1 >= r.T.Net.N.HardforkV2.RequireHeight {
		return
	}
	var txn types.Transaction
	for _, k := range img.Keys(bSC) {
		txn.SiacoinInputs = append(txn.SiacoinInputs, types.SiacoinInput{ParentID: types.SiacoinOutputID([]byte(k))})
	}
	for _, k := range img.Keys(bSF) {
		txn.SiafundInputs = append(txn.SiafundInputs, types.SiafundInput{ParentID: types.SiafundOutputID([]byte(k))})
	}
	for _, k := range img.Keys(bFC) {
		if len(k) == 32 {
			txn.FileContractRevisions = append(txn.FileContractRevisions, types.FileContractRevision{ParentID: types.FileContractID([]byte(k))})
		}
	}
	if len(txn.SiacoinInputs)+len(txn.SiafundInputs)+len(txn.FileContractRevisions) == 0 {
		return
	}
	probe := types.Block{ParentID: tb.Block.ID(), Transactions: []types.Transaction{txn}}
	r.Probes++
	var got []byte
	if msg := guard(func() { got = encode(r.Node.Store.SupplementTipBlock(probe)) }); msg != "" {
		r.C.Oracle("supplement-at-intermediate-tip-panics", "SupplementTipBlock at intermediate tip %d (height %d) panicked: %s", tid, tb.Height, msg)
		return
	}
	want := encode(r.twin(tid).nd.Store.SupplementTipBlock(probe))
	if bytes.Equal(got, want) {
		return
	}
	if r.Tainted {
		r.KnownHits++
		r.C.Oracle(ClassExpOrder, "supplement at intermediate tip %d differs from the linear node's (history reverted a mid-list removal)", tid)
		return
	}
	r.C.Oracle("supplement-at-intermediate-tip-differs-from-twin", "inside a reorg, at tip %d (height %d), SupplementTipBlock for a v1 block touching every stored element differs from what a linear node of that tip hands out (elements or proof lengths)", tid, tb.Height)
}

func guard(f func()) (msg string) {
	defer debug.SetPanicOnFault(debug.SetPanicOnFault(true))
	defer func() {
		if p := recover(); p != nil {
			msg = firstLine(fmt.Sprint(p))
		}
	}()
	f()
	return ""
}

// ShareTwins makes r use (and fill) the twin cache of o (same tree).
func (r *Rig) ShareTwins(o *Rig) { r.twins = o.twins }

func (r *Rig) twin(tip int) *twinInfo {
	if tw, ok := r.twins[tip]; ok {
		return tw
	}
	nd := r.T.Twin(tip)
	tw := &twinInfo{nd: nd, img: Canon(kvx.Dump(nd.DB))}
	r.twins[tip] = tw
	return tw
}

func encode(v types.EncoderTo) []byte {
	var buf bytes.Buffer
	e := types.NewEncoder(&buf)
	v.EncodeTo(e)
	e.Flush()
	return buf.Bytes()
}

// CompareWithTwin is the history-independence oracle: everything the store serves for its best
// chain against a node that only ever saw that chain.
func (r *Rig) CompareWithTwin(when string) {
	if r.Panicked || r.RevResTaint {
		return
	}
	nd := r.Node
	tipIdx := nd.CM.Tip()
	tip, ok := r.T.Lookup(tipIdx.ID)
	if !ok || !r.T.AllValid(tip) {
		r.C.Oracle("tip-not-a-valid-block", "%s: tip %v is not a fully valid submitted block", when, tipIdx)
		return
	}
	tw := r.twin(tip)
	img := Canon(kvx.Dump(nd.DB))
	fail := func(class, format string, a ...any) {
		if r.Tainted {
			// a permuted expiration list changes supplement order, leaf indices and with them every
			// value derived from the accumulator; key sets must still agree (checked separately)
			r.KnownHits++
			r.C.Oracle(ClassExpOrder, "%s (history reverted a block that removed a contract from the middle of an expiration list): "+format, append([]any{when}, a...)...)
			return
		}
		r.C.Oracle(class, "%s: "+format, append([]any{when}, a...)...)
	}
	// best chain ids
	best := map[string]bool{}
	for h := uint64(0); h <= tipIdx.Height; h++ {
		ci, _ := nd.CM.BestIndex(h)
		best[string(ci.ID[:])] = true
	}
	n := nd.CM.TipState().Elements.NumLeaves
	for _, bucket := range kvx.Buckets {
		a, b := img[bucket], tw.img[bucket]
		switch bucket {
		case bBlocks, bState:
			a, b = restrict(a, best), restrict(b, best)
		case bTree:
			if tipIdx.Height+1 >= r.T.Net.N.HardforkV2.RequireHeight {
				continue // no proofs are served for the child of this tip; the Tree bucket is frozen
			}
			if nd.CM.TipState().Elements.NumLeaves != tw.nd.CM.TipState().Elements.NumLeaves {
				r.C.Oracle("accumulator-size-differs-from-twin", "%s: %d leaves, the linear node has %d", when, n, tw.nd.CM.TipState().Elements.NumLeaves)
				continue
			}
			a, b = liveTree(nd.Store, img, n), liveTree(tw.nd.Store, tw.img, n)
		}
		// key sets must agree whatever the history
		if ka, kb := keysOf(a), keysOf(b); ka != kb {
			if bucket == bFC && r.Tainted {
				// a list may also be empty on one side only as long as ids agree — they do as sets, so this is a real difference
			}
			r.C.Oracle("key-set-differs-from-twin:"+bucket, "%s: bucket %s has different keys than on the linear node: %s", when, bucket, kvx.DiffBucket(a, b))
			continue
		}
		if bucket == bFC {
			// expiration lists: equal, or permutations of each other in a tainted history
			ea, eb := ExpOf(r.IDs, img), ExpOf(r.IDs, tw.img)
			for h, l := range ea {
				if fmt.Sprint(l) == fmt.Sprint(eb[h]) {
					continue
				}
				sa, sb := append([]int(nil), l...), append([]int(nil), eb[h]...)
				sort.Ints(sa)
				sort.Ints(sb)
				if fmt.Sprint(sa) != fmt.Sprint(sb) {
					r.C.Oracle("exp-list-content-differs-from-twin", "%s: height %d lists %v, the linear node %v", when, h, l, eb[h])
				} else {
					fail("exp-list-order-differs-from-twin", "expiration list at height %d is %v, on the linear node %v", h, l, eb[h])
				}
			}
			a, b = only(a, 32), only(b, 32)
		}
		if d := kvx.DiffBucket(a, b); d != "" {
			if bucket == bMain {
				r.C.Oracle("best-index-differs-from-twin", "%s: %s", when, d)
				continue
			}
			fail("bucket-differs-from-twin:"+bucket, "bucket %s differs from the linear node: %s", bucket, d)
		}
	}
	// the state stored for every block of the best chain (what a later revert down to that block,
	// or a restart on it, resumes from)
	for h := uint64(0); h <= tipIdx.Height; h++ {
		ci, _ := nd.CM.BestIndex(h)
		a, oka := nd.Store.State(ci.ID)
		b, okb := tw.nd.Store.State(ci.ID)
		if oka != okb || !bytes.Equal(encode(a), encode(b)) {
			id, _ := r.T.Lookup(ci.ID)
			fail("stored-state-differs-from-twin", "State(%d) of the best-chain block at height %d differs from the one the linear node stores (present %v/%v, %d vs %d accumulator leaves)", id, h, oka, okb, a.Elements.NumLeaves, b.Elements.NumLeaves)
			break
		}
	}
	// what the store hands out
	if !bytes.Equal(encode(nd.CM.TipState()), encode(tw.nd.CM.TipState())) {
		fail("tip-state-differs-from-twin", "TipState differs from the linear node's")
	}
	for h := tipIdx.Height; h <= tipIdx.Height+8; h++ {
		a, b := nd.Store.ExpiringFileContractIDs(h), tw.nd.Store.ExpiringFileContractIDs(h)
		if fmt.Sprint(a) != fmt.Sprint(b) {
			fail("expiring-ids-differ-from-twin", "ExpiringFileContractIDs(%d) = %v, linear node %v", h, a, b)
		}
	}
	probes := []types.Block{{ParentID: tipIdx.ID}}
	for _, c := range r.T.Children(tip) {
		probes = append(probes, r.T.Blocks[c].Block)
	}
	for _, p := range probes {
		a, b := nd.Store.SupplementTipBlock(p), tw.nd.Store.SupplementTipBlock(p)
		if !bytes.Equal(encode(a), encode(b)) {
			fail("block-supplement-differs-from-twin", "SupplementTipBlock for a child of the tip differs from the linear node's (%d vs %d expiring contracts)", len(a.ExpiringFileContracts), len(b.ExpiringFileContracts))
		}
		for _, txn := range p.Transactions {
			if !bytes.Equal(encode(nd.Store.SupplementTipTransaction(txn)), encode(tw.nd.Store.SupplementTipTransaction(txn))) {
				fail("txn-supplement-differs-from-twin", "SupplementTipTransaction differs from the linear node's")
			}
		}
	}
}

func restrict(m map[string][]byte, keep map[string]bool) map[string][]byte {
	out := map[string][]byte{}
	for k, v := range m {
		if keep[k] {
			out[k] = v
		}
	}
	return out
}

func keysOf(m map[string][]byte) string {
	ks := make([]string, 0, len(m))
	for k := range m {
		ks = append(ks, k)
	}
	sort.Strings(ks)
	return strings.Join(ks, "")
}

// Submit calls AddBlocks, recovering a panic.
func (r *Rig) Submit(batch []int) (res string) {
	r.opsInSubmission = 0
	defer debug.SetPanicOnFault(debug.SetPanicOnFault(true))
	defer func() {
		if p := recover(); p != nil {
			r.Panicked = true
			r.PanicMsg = firstLine(fmt.Sprint(p))
			res = "panic"
		}
	}()
	var err error
	if r.Probe != nil {
		r.Probe.Writer("AddBlocks", func() { err = r.Node.CM.AddBlocks(r.T.Get(batch)) })
		r.auditProbe(batch)
	} else {
		err = r.Node.CM.AddBlocks(r.T.Get(batch))
	}
	if err != nil {
		return "err"
	}
	return "ok"
}

// PreValidated reports whether batch is what an honest syncer hands to AddValidatedV2Blocks: a
// parent-linked run of fully valid v2-only blocks above the require height.
func PreValidated(t *chainx.Tree, batch []int) bool {
	for k, id := range batch {
		if id <= 0 || id >= len(t.Blocks) {
			return false
		}
		b := t.Blocks[id]
		if b.Parent == chainx.OrphanParent || !t.AllValid(id) || !b.V2 || b.Height <= t.Net.N.HardforkV2.RequireHeight || len(b.Block.Transactions) > 0 {
			return false
		}
		if k > 0 && b.Parent != batch[k-1] {
			return false
		}
	}
	return len(batch) > 0
}

// SubmitV2 hands the batch to AddValidatedV2Blocks with the full post-block states computed on
// linear twins (the pre-validated path of the syncer), recovering a panic.
func (r *Rig) SubmitV2(batch []int) (res string) {
	r.opsInSubmission = 0
	defer debug.SetPanicOnFault(debug.SetPanicOnFault(true))
	defer func() {
		if p := recover(); p != nil {
			r.Panicked = true
			r.PanicMsg = firstLine(fmt.Sprint(p))
			res = "panic"
		}
	}()
	states := make([]consensus.State, len(batch))
	for i, id := range batch {
		states[i] = r.T.Blocks[id].Full
	}
	var err error
	if r.Probe != nil {
		r.Probe.Writer("AddValidatedV2Blocks", func() { err = r.Node.CM.AddValidatedV2Blocks(r.T.Get(batch), states) })
		r.auditProbe(batch)
	} else {
		err = r.Node.CM.AddValidatedV2Blocks(r.T.Get(batch), states)
	}
	if err != nil {
		return "err"
	}
	return "ok"
}

// auditProbe reports what the atomicity probe saw during the last submission.
func (r *Rig) auditProbe(batch []int) {
	for _, f := range r.Probe.Found() {
		r.C.Oracle("manager-readable-in-the-middle-of-a-change", "batch %v: %s (every exported Manager method holds the manager's lock for its whole duration: another caller must not get an answer while a submission is inside a store call)", batch, f)
	}
}

// SubmitVia uses the pre-validated path when v2 is set (and the batch qualifies), AddBlocks otherwise.
func (r *Rig) SubmitVia(batch []int, v2 bool) string {
	if v2 && PreValidated(r.T, batch) {
		r.V2Batches++
		return r.SubmitV2(batch)
	}
	return r.Submit(batch)
}

// Prelude writes the block declarations and the genesis observation.
func (r *Rig) Prelude() {
	ids := make([]int, 0, len(r.Decls))
	for id := range r.Decls {
		ids = append(ids, id)
	}
	sort.Ints(ids)
	for _, id := range ids {
		r.C.Op(r.Decls[id].Line, "ok")
	}
	line := Obs(r.T, r.IDs, kvx.Dump(r.Node.DB))
	if r.CommitMode {
		line += " | durable " + r.Durable()
	}
	r.C.Op("genesis", line)
}

// DurableLine renders a committed image the way the commit model renders its durable node.
func DurableLine(t *chainx.Tree, img kvx.Image) string {
	var height uint64
	if v := img[bMain]["Height"]; len(v) == 8 {
		height = binary.BigEndian.Uint64(v)
	}
	var k [8]byte
	binary.BigEndian.PutUint64(k[:], height)
	tip := "?"
	if v, ok := img[bMain][string(k[:])]; ok && len(v) == 32 {
		if id, known := t.Lookup(types.BlockID(v)); known {
			tip = fmt.Sprint(id)
		}
	}
	return fmt.Sprintf("h %d tip %s", height, tip)
}
