// Package srcfacts regenerates lean/Verif/Extracted/*.lean from /repo's current source on every
// run.  It emits Lean *data* only (tables and facts about the syntax tree); every judgement about
// those facts is made in Lean by theorems over the generated definitions.
package srcfacts

import (
	"bytes"
	"os"
	"path/filepath"
)

// writeIfChanged keeps the file's mtime when nothing changed so lake does not rebuild.
func writeIfChanged(path string, content []byte) error {
	if old, err := os.ReadFile(path); err == nil && bytes.Equal(old, content) {
		return nil
	}
	return os.WriteFile(path, content, 0o644)
}

// Run regenerates every extracted file into dir.
func Run(repo, dir string) error {
	if err := os.MkdirAll(dir, 0o755); err != nil {
		return err
	}
	for _, g := range generators {
		content, err := g.gen(repo)
		if err != nil {
			return err
		}
		if err := writeIfChanged(filepath.Join(dir, g.file), content); err != nil {
			return err
		}
	}
	return nil
}

type generator struct {
	file string
	gen  func(repo string) ([]byte, error)
}

var generators []generator
