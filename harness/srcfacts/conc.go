package srcfacts

import (
	"bytes"
	"fmt"
	"go/ast"
	"go/parser"
	"go/token"
	"go/types"
	"path/filepath"
	"strconv"
	"strings"
)

// conc.go extracts, for the functions C18 is anchored in, the ordered skeleton of their
// synchronisation-relevant operations (lock/unlock calls, deferred calls, channel sends and
// receives, accesses to the guarded maps, the verifEvent hooks) as Lean data.  Whether those
// skeletons justify the atomic steps of Verif/Model/Conc.lean is decided in Lean
// (Verif/Extracted/ConcFacts.lean ends with `decide`d obligations over the data).

func init() {
	generators = append(generators, generator{file: "ConcFacts.lean", gen: genConcFacts})
}

type concFn struct{ file, recv, name string }

var concFns = []concFn{
	{"threadgroup/threadgroup.go", "ThreadGroup", "Add"},
	{"threadgroup/threadgroup.go", "ThreadGroup", "Stop"},
	{"syncer/syncer.go", "Syncer", "addPeer"},
	{"syncer/syncer.go", "Syncer", "acquireInflight"},
	{"syncer/syncer.go", "Syncer", "releaseInflight"},
	{"syncer/syncer.go", "Syncer", "runPeer"},
	{"syncer/syncer.go", "Syncer", "allowConnect"},
	{"syncer/syncer.go", "Syncer", "withPeers"},
	{"syncer/syncer.go", "Syncer", "Run"},
	{"syncer/syncer.go", "Syncer", "Close"},
	{"rhp/v4/server.go", "Server", "Close"},
	{"rhp/v4/server.go", "Server", "Serve"},
	{"wallet/wallet.go", "SingleAddressWallet", "Close"},
}

// The unexported methods that exist in the anchored files at the pinned commits.  A call of an
// unexported method of the same receiver that is NOT in this set is a helper that a later
// refactoring extracted from an anchored function: its body is inlined into the skeleton (with the
// helper's receiver renamed to the caller's), so that a behaviour-preserving extraction does not
// change the facts.  Calls of the known methods stay calls.
var concKnown = map[string]bool{
	"Syncer.firstRelay": true, "Syncer.resync": true, "Syncer.ban": true, "Syncer.addPeer": true,
	"Syncer.subnetKey": true, "Syncer.acquireInflight": true, "Syncer.releaseInflight": true,
	"Syncer.runPeer": true, "Syncer.withPeers": true, "Syncer.relayV2Header": true,
	"Syncer.relayV2BlockOutline": true, "Syncer.relayV2TransactionSet": true, "Syncer.allowConnect": true,
	"Syncer.alreadyConnected": true, "Syncer.acceptLoop": true, "Syncer.peerLoop": true, "Syncer.syncLoop": true,
	"Syncer.parallelSync": true, "Syncer.handleRPC": true, "Syncer.verifID": true, "Syncer.verifSub": true, "Syncer.verifPeers": true,
	"Server.lockContractForRevision": true, "Server.handleHostStream": true,
	"SingleAddressWallet.selectUTXOs": true, "SingleAddressWallet.cleanLockedUTXOs": true,
	"SingleAddressWallet.lockUTXOs": true, "SingleAddressWallet.selectRedistributeUTXOs": true,
	"SingleAddressWallet.isLocked": true, "SingleAddressWallet.rebroadcastTransactions": true,
}

// concHelpers: unexported methods of recv declared in f that are not known.
func concHelpers(f *ast.File, recv string) map[string]*ast.FuncDecl {
	out := map[string]*ast.FuncDecl{}
	for _, d := range f.Decls {
		fd, ok := d.(*ast.FuncDecl)
		if !ok || fd.Body == nil || ast.IsExported(fd.Name.Name) || recvName(fd) != recv {
			continue
		}
		if concKnown[recv+"."+fd.Name.Name] || strings.HasPrefix(fd.Name.Name, "handleRPC") || strings.HasPrefix(fd.Name.Name, "verif") {
			continue
		}
		out[fd.Name.Name] = fd
	}
	return out
}

func recvVar(fd *ast.FuncDecl) string {
	if fd.Recv == nil || len(fd.Recv.List) == 0 || len(fd.Recv.List[0].Names) == 0 {
		return ""
	}
	return fd.Recv.List[0].Names[0].Name
}

func recvName(fd *ast.FuncDecl) string {
	if fd.Recv == nil || len(fd.Recv.List) == 0 {
		return ""
	}
	t := fd.Recv.List[0].Type
	if s, ok := t.(*ast.StarExpr); ok {
		t = s.X
	}
	if id, ok := t.(*ast.Ident); ok {
		return id.Name
	}
	return ""
}

// skeleton flattens a function body into tokens, in source order.  self is the name of the
// function's receiver variable, helpers the extracted helpers that are inlined (see concKnown).
func skeleton(body *ast.BlockStmt, self string, helpers map[string]*ast.FuncDecl) []string {
	return skeletonDepth(body, self, helpers, 0)
}

func skeletonDepth(body *ast.BlockStmt, self string, helpers map[string]*ast.FuncDecl, depth int) []string {
	var toks []string
	var walk func(n ast.Node)
	walkAll := func(ns ...ast.Node) {
		for _, n := range ns {
			if n != nil {
				walk(n)
			}
		}
	}
	call := func(prefix string, c *ast.CallExpr) {
		fun := types.ExprString(c.Fun)
		if fun == "verifEvent" && len(c.Args) > 0 {
			if lit, ok := c.Args[0].(*ast.BasicLit); ok {
				if s, err := strconv.Unquote(lit.Value); err == nil {
					toks = append(toks, prefix+"event "+s)
					return
				}
			}
		}
		if (fun == "close" || fun == "delete") && len(c.Args) > 0 {
			toks = append(toks, prefix+fun+" "+types.ExprString(c.Args[0]))
			return
		}
		// an extracted helper of the same receiver: its skeleton in place of the call
		if sel, ok := c.Fun.(*ast.SelectorExpr); ok && prefix == "" && depth < 3 {
			if id, ok := sel.X.(*ast.Ident); ok && id.Name == self {
				if h := helpers[sel.Sel.Name]; h != nil {
					hv := recvVar(h)
					for _, t := range skeletonDepth(h.Body, hv, helpers, depth+1) {
						if t == "return" {
							continue // the helper's return is not a return of the caller
						}
						if hv != "" && hv != self {
							t = renameRecv(t, hv, self)
						}
						toks = append(toks, t)
					}
					for _, a := range c.Args {
						walk(a)
					}
					return
				}
			}
		}
		if _, ok := c.Fun.(*ast.FuncLit); !ok {
			toks = append(toks, prefix+"call "+fun)
		}
		for _, a := range c.Args {
			walk(a)
		}
	}
	walk = func(n ast.Node) {
		switch x := n.(type) {
		case nil:
		case *ast.BlockStmt:
			for _, s := range x.List {
				walk(s)
			}
		case *ast.ExprStmt:
			walk(x.X)
		case *ast.DeferStmt:
			if fl, ok := x.Call.Fun.(*ast.FuncLit); ok {
				toks = append(toks, "defer{")
				walk(fl.Body)
				toks = append(toks, "}")
			} else {
				call("defer ", x.Call)
			}
		case *ast.GoStmt:
			if fl, ok := x.Call.Fun.(*ast.FuncLit); ok {
				toks = append(toks, "go{")
				walk(fl.Body)
				toks = append(toks, "}")
			} else {
				call("go ", x.Call)
			}
		case *ast.FuncLit:
			toks = append(toks, "func{")
			walk(x.Body)
			toks = append(toks, "}")
		case *ast.CallExpr:
			if fl, ok := x.Fun.(*ast.FuncLit); ok {
				walk(fl)
			}
			call("", x)
		case *ast.SendStmt:
			walk(x.Value)
			toks = append(toks, "send "+types.ExprString(x.Chan))
		case *ast.UnaryExpr:
			if x.Op == token.ARROW {
				toks = append(toks, "recv "+types.ExprString(x.X))
			} else {
				walk(x.X)
			}
		case *ast.RangeStmt:
			toks = append(toks, "range "+types.ExprString(x.X))
			walk(x.Body)
		case *ast.IndexExpr:
			toks = append(toks, "index "+types.ExprString(x.X))
			walk(x.Index)
		case *ast.IncDecStmt:
			walk(x.X)
		case *ast.ReturnStmt:
			for _, r := range x.Results {
				walk(r)
			}
			toks = append(toks, "return")
		case *ast.BranchStmt:
			toks = append(toks, x.Tok.String())
		case *ast.AssignStmt:
			for _, r := range x.Rhs {
				walk(r)
			}
			for _, l := range x.Lhs {
				walk(l)
			}
		case *ast.IfStmt:
			walkAll(x.Init, x.Cond, x.Body, x.Else)
		case *ast.ForStmt:
			toks = append(toks, "for{")
			walkAll(x.Init, x.Cond, x.Body, x.Post)
			toks = append(toks, "}")
		case *ast.SelectStmt:
			toks = append(toks, "select{")
			walk(x.Body)
			toks = append(toks, "}")
		case *ast.CommClause:
			if x.Comm == nil {
				toks = append(toks, "default")
			} else {
				toks = append(toks, "case")
				walk(x.Comm)
			}
			for _, s := range x.Body {
				walk(s)
			}
		case *ast.SwitchStmt:
			walkAll(x.Init, x.Tag, x.Body)
		case *ast.TypeSwitchStmt:
			walkAll(x.Init, x.Assign, x.Body)
		case *ast.CaseClause:
			for _, e := range x.List {
				walk(e)
			}
			for _, s := range x.Body {
				walk(s)
			}
		case *ast.BinaryExpr:
			walkAll(x.X, x.Y)
		case *ast.ParenExpr:
			walk(x.X)
		case *ast.StarExpr:
			walk(x.X)
		case *ast.SelectorExpr:
			walk(x.X)
		case *ast.CompositeLit:
			for _, e := range x.Elts {
				walk(e)
			}
		case *ast.KeyValueExpr:
			walk(x.Value)
		case *ast.DeclStmt, *ast.Ident, *ast.BasicLit, *ast.LabeledStmt, *ast.EmptyStmt, *ast.TypeAssertExpr, *ast.SliceExpr:
		}
	}
	walk(body)
	return toks
}

// renameRecv replaces the identifier `from` (followed by a dot) by `to` in a token.
func renameRecv(tok, from, to string) string {
	var b strings.Builder
	for i := 0; i < len(tok); {
		if strings.HasPrefix(tok[i:], from+".") && (i == 0 || !isIdentByte(tok[i-1])) {
			b.WriteString(to + ".")
			i += len(from) + 1
			continue
		}
		b.WriteByte(tok[i])
		i++
	}
	return b.String()
}

func isIdentByte(c byte) bool {
	return c == '_' || c >= '0' && c <= '9' || c >= 'a' && c <= 'z' || c >= 'A' && c <= 'Z'
}

func genConcFacts(repo string) ([]byte, error) {
	parsed := map[string]*ast.File{}
	fset := token.NewFileSet()
	var b bytes.Buffer
	b.WriteString("/-\nREGENERATED by harness/srcfacts (conc.go) from /repo on every run — do not edit.\n")
	b.WriteString("Ordered synchronisation skeletons of the functions C18 is anchored in, and the decidable\nobligations that the atomic steps of Verif/Model/Conc.lean are the ones in the source.\n-/\n")
	b.WriteString("namespace Verif.Extracted.ConcFacts\n\n")
	b.WriteString("/-- (function, ordered tokens) -/\ndef fns : List (String × List String) := [\n")
	for i, fn := range concFns {
		f := parsed[fn.file]
		if f == nil {
			var err error
			f, err = parser.ParseFile(fset, filepath.Join(repo, fn.file), nil, 0)
			if err != nil {
				return nil, err
			}
			parsed[fn.file] = f
		}
		var toks []string
		found := false
		for _, d := range f.Decls {
			fd, ok := d.(*ast.FuncDecl)
			if !ok || fd.Name.Name != fn.name || recvName(fd) != fn.recv || fd.Body == nil {
				continue
			}
			toks = skeleton(fd.Body, recvVar(fd), concHelpers(f, fn.recv))
			found = true
		}
		if !found {
			// an empty skeleton makes the obligations fail in Lean, which is the right outcome
			toks = nil
		}
		fmt.Fprintf(&b, "  (%q, [", fn.recv+"."+fn.name)
		for j, t := range toks {
			if j > 0 {
				b.WriteString(", ")
			}
			fmt.Fprintf(&b, "%q", t)
		}
		b.WriteString("])")
		if i+1 < len(concFns) {
			b.WriteString(",")
		}
		b.WriteString("\n")
	}
	b.WriteString("]\n\n")
	b.WriteString(concObligations)
	b.WriteString("\nend Verif.Extracted.ConcFacts\n")
	return b.Bytes(), nil
}

// The judgement is Lean's: these definitions and `decide`d theorems are emitted verbatim after
// the data.
const concObligations = `def toks (f : String) : List String := (fns.lookup f).getD []

/-- every token of ` + "`targets`" + ` that occurs in ` + "`l`" + ` occurs while the mutex is held: after a
` + "`lock`" + ` token and before the next ` + "`unlock`" + ` token (a deferred unlock holds to the end), and each
target occurs at least once -/
def heldScan (lock unlock : String) (targets : List String) : Bool → List String → Bool
  | _, [] => true
  | held, t :: ts =>
    if t = lock then heldScan lock unlock targets true ts
    else if t = unlock then heldScan lock unlock targets false ts
    else if targets.contains t && !held then false
    else heldScan lock unlock targets held ts

def under (f lock unlock : String) (targets : List String) : Bool :=
  heldScan lock unlock targets false (toks f) && targets.all (toks f).contains

def idxOf (t : String) (l : List String) : Nat := l.findIdx (· = t)

/-- ` + "`a`" + ` occurs, and before the first ` + "`b`" + ` (which occurs too) -/
def before (f a b : String) : Bool :=
  let l := toks f
  l.contains a && l.contains b && idxOf a l < idxOf b l

def has (f a : String) : Bool := (toks f).contains a

/-- how often ` + "`t`" + ` occurs after the first ` + "`a`" + ` and before the next ` + "`b`" + ` -/
def countBetween (f a b t : String) : Nat :=
  ((((toks f).dropWhile (· ≠ a)).drop 1).takeWhile (· ≠ b)).count t

/-- every occurrence of ` + "`a`" + ` in ` + "`f`" + ` is directly preceded by ` + "`b`" + `, and ` + "`a`" + ` occurs -/
def precededByL (a b : String) : List String → Bool
  | x :: y :: rest => (y != a || x == b) && precededByL a b (y :: rest)
  | _ => true

def precededBy (f a b : String) : Bool :=
  let l := toks f
  l.contains a && l.head? != some a && precededByL a b l

/-- in the part of ` + "`f`" + ` that starts at the first ` + "`start`" + `: ` + "`a`" + ` occurs, and before the first ` + "`b`" + ` -/
def beforeFrom (f start a b : String) : Bool :=
  let l := (toks f).dropWhile (· ≠ start)
  l.contains a && l.contains b && idxOf a l < idxOf b l

/-! ### ThreadGroup (model: TG.step) -/

/-- Add is ONE step: the closed test, wg.Add and the hook are under one acquisition of tg.mu -/
theorem tg_add_atomic : under "ThreadGroup.Add" "call tg.mu.Lock" "call tg.mu.Unlock"
    ["recv tg.closed", "call tg.wg.Add", "event tg.add"] = true := by decide
/-- the done closure is wg.Done preceded by its hook (so the recorded order never shows a
Wait-return before the done that enabled it) -/
theorem tg_done_hook_first : before "ThreadGroup.Add" "event tg.done" "call tg.wg.Done" = true := by decide
/-- Stop closes under tg.mu, releases it, THEN waits (step stop / step ret) -/
theorem tg_stop_close_locked : under "ThreadGroup.Stop" "call tg.mu.Lock" "call tg.mu.Unlock"
    ["recv tg.closed", "close tg.closed", "event tg.stop"] = true := by decide
/-- the Stop hook is recorded BEFORE the closed channel becomes observable (channel readers are
not serialised by tg.mu; recorded order must not show an observer of the close before the close) -/
theorem tg_stop_hook_before_close :
    precededBy "ThreadGroup.Stop" "close tg.closed" "event tg.stop" = true := by decide
theorem tg_stop_waits_unlocked :
    (before "ThreadGroup.Stop" "call tg.mu.Unlock" "call tg.wg.Wait" &&
     before "ThreadGroup.Stop" "call tg.wg.Wait" "event tg.stopped") = true := by decide

/-! ### in-flight accounting (model: IF.step acq / relSub / take / relPeer …) -/

theorem acquire_atomic : under "Syncer.acquireInflight" "call s.inflightMu.Lock" "call s.inflightMu.Unlock"
    ["index s.inflightSubnet", "event s.sub.acq", "event s.sub.rej"] = true := by decide
theorem release_atomic : under "Syncer.releaseInflight" "call s.inflightMu.Lock" "call s.inflightMu.Unlock"
    ["index s.inflightSubnet", "delete s.inflightSubnet", "event s.sub.rel"] = true := by decide
/-- the per-peer slot is taken by a blocking send that can only be abandoned for tg.Done
(no default case: back-pressure, no reject transition) -/
theorem runPeer_take_blocks :
    (beforeFrom "Syncer.runPeer" "event s.slot.want" "send inflight" "recv s.tg.Done()" &&
     beforeFrom "Syncer.runPeer" "event s.slot.want" "recv s.tg.Done()" "call s.acquireInflight" &&
     !has "Syncer.runPeer" "default") = true := by decide
/-- over-budget path: the per-peer slot is given back before the loop continues -/
theorem runPeer_reject_returns_slot :
    (before "Syncer.runPeer" "call s.acquireInflight" "recv inflight" &&
     before "Syncer.runPeer" "recv inflight" "continue") = true := by decide
/-- between acquireInflight and the start of the handler there is exactly ONE way out of the loop
body, the over-budget branch (which holds no subnet slot): no path that has acquired the subnet
slot leaves without the handler, whose deferred calls release it -/
theorem runPeer_only_reject_exit_before_handler :
    (countBetween "Syncer.runPeer" "call s.acquireInflight" "event s.h.start" "continue" == 1 &&
     countBetween "Syncer.runPeer" "call s.acquireInflight" "event s.h.start" "return" == 0 &&
     countBetween "Syncer.runPeer" "call s.acquireInflight" "event s.h.start" "recv inflight" == 1) = true := by decide
/-- handler: both releases are deferred BEFORE tg.Add is attempted, so the exit
"thread group already closed" returns both slots; the subnet slot is released (deferred later,
hence run earlier) before the per-peer slot; the hook precedes the per-peer release -/
theorem handler_defers_cover_every_exit :
    (beforeFrom "Syncer.runPeer" "event s.h.start" "defer call s.releaseInflight" "call s.tg.Add" &&
     beforeFrom "Syncer.runPeer" "event s.h.start" "recv inflight" "defer call s.releaseInflight" &&
     beforeFrom "Syncer.runPeer" "event s.h.start" "defer event s.slot.ret" "defer call s.releaseInflight" &&
     beforeFrom "Syncer.runPeer" "event s.h.start" "call s.tg.Add" "call s.handleRPC" &&
     beforeFrom "Syncer.runPeer" "event s.h.start" "defer call done" "call s.handleRPC") = true := by decide
/-- runPeer's exit removes the peer under s.mu and closes its transport (repaired code: step
peerAdd-refused / watch of the teardown model) -/
theorem runPeer_exit_removes_locked : under "Syncer.runPeer" "call s.mu.Lock" "call s.mu.Unlock"
    ["delete s.peers", "event s.rmpeer"] = true := by decide
theorem runPeer_closes_peer :
    (before "Syncer.runPeer" "call p.Close" "delete s.peers" && has "Syncer.runPeer" "recv s.tg.Done()") = true := by decide

/-- withPeers: every relay goroutine joins the thread group itself, before it calls the relay
function, and leaves it when the relay ends (a broadcast returns at the first success; the other
relays go on and Close must wait for them) -/
theorem withPeers_registers_each_goroutine :
    (before "Syncer.withPeers" "go{" "call s.tg.Add" &&
     beforeFrom "Syncer.withPeers" "go{" "call s.tg.Add" "call fn" &&
     beforeFrom "Syncer.withPeers" "go{" "defer call done" "call fn") = true := by decide

/-! ### peer caps (model: Caps.step fixed := true) -/

/-- allowConnect counts and decides under s.mu (deferred unlock: held to the end) -/
theorem allow_atomic : under "Syncer.allowConnect" "call s.mu.Lock" "call s.mu.Unlock"
    ["range s.peers", "event s.allow.ok", "event s.allow.rej"] = true := by decide
/-- addPeer: the inbound re-count, the decision and the insert are under ONE acquisition of s.mu -/
theorem addPeer_atomic : under "Syncer.addPeer" "call s.mu.Lock" "call s.mu.Unlock"
    ["range s.peers", "index s.peers", "event s.addpeer", "event s.addpeer.rej"] = true := by decide

/-- addPeer: the peer store is consulted BEFORE the peer is inserted (and outside s.mu): an error of
the store leaves no entry in s.peers — nothing would ever remove it (runPeer only runs for a peer
that was added), Run's wait for the peer set to drain would never end -/
theorem addPeer_store_before_insert :
    (before "Syncer.addPeer" "call s.pm.AddPeer" "call s.mu.Lock" &&
     before "Syncer.addPeer" "call s.pm.UpdatePeerInfo" "call s.mu.Lock" &&
     before "Syncer.addPeer" "call s.pm.UpdatePeerInfo" "index s.peers") = true := by decide

/-! ### Close = Stop (models: Srv, TD) -/

theorem closes_stop_group :
    (has "Syncer.Close" "call s.tg.Stop" && before "Syncer.Close" "call s.l.Close" "call s.tg.Stop" &&
     has "Server.Close" "call s.tg.Stop" && has "SingleAddressWallet.Close" "call sw.tg.Stop") = true := by decide
/-- Serve: every stream goroutine joins the group before it handles the stream -/
theorem serve_joins_group :
    (before "Server.Serve" "go{" "call s.tg.Add" &&
     before "Server.Serve" "call s.tg.Add" "call s.handleHostStream" &&
     before "Server.Serve" "defer call done" "call s.handleHostStream") = true := by decide
/-- Run: the peers are closed once under s.mu after the listener is closed, and Run waits for the
peer set to drain under the same mutex (Cond.Wait) -/
theorem run_sweeps_locked : under "Syncer.Run" "call s.mu.Lock" "call s.mu.Unlock"
    ["call p.Close", "call s.peerRemoved.Wait"] = true := by decide
theorem run_closes_listener_first : before "Syncer.Run" "call s.l.Close" "call p.Close" = true := by decide
`
