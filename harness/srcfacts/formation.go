package srcfacts

// C16: the release discipline of contract formation / renewal / refresh, extracted from
// /repo/rhp/v4/rpc.go (renter) and /repo/rhp/v4/server.go (host) with go/parser.  The generator
// emits *data* only:
//
//   - per client function, every `return` in source order with: is it after the
//     FundV2Transaction statement, is it the return guarding that call's own error, does it
//     return a non-nil error, is a ReleaseInputs call a preceding statement of the same block;
//     whether the function compares the transaction id of the host's final transaction with its
//     own, and whether the contract it returns is the locally built one;
//   - per host handler, the source positions (statement ranks) of the FundV2Transaction call, of
//     the deferred release (and whether it is `if broadcast { return }`-guarded and releases the
//     handler's transaction variable), of every return between the two, of the pool admission of
//     the full set, the contractor call, the wallet broadcast, `broadcast = true`, the final
//     WriteResponse; the number of assignments to `broadcast`; and whether any statement cuts the
//     handler's transaction down to a prefix of its inputs.
//
// Lean (Verif/Props/C16.lean) decides the obligations over these tables and derives the `Cfg` the
// theorems are instantiated with.

import (
	"bytes"
	"fmt"
	"go/ast"
	"go/parser"
	"go/token"
	"path/filepath"
)

func init() {
	generators = append(generators, generator{file: "FormationFacts.lean", gen: genFormationFacts})
}

type renterRet struct {
	line                                     int
	afterFund, fundErr, returnsErr, released bool
}

type renterFacts struct {
	name                 string
	found                bool
	rets                 []renterRet
	comparesTxnID        bool
	returnsLocalContract bool
}

func callSel(e ast.Expr) (recv, name string, ok bool) {
	c, ok := e.(*ast.CallExpr)
	if !ok {
		return "", "", false
	}
	s, ok := c.Fun.(*ast.SelectorExpr)
	if !ok {
		return "", "", false
	}
	if id, ok := s.X.(*ast.Ident); ok {
		return id.Name, s.Sel.Name, true
	}
	if s2, ok := s.X.(*ast.SelectorExpr); ok { // s.wallet.Fund…
		return s2.Sel.Name, s.Sel.Name, true
	}
	return "", s.Sel.Name, true
}

// stmtCalls reports whether the statement itself (not nested blocks) is or assigns from a call
// of method name.
func stmtCalls(st ast.Stmt, name string) bool {
	switch s := st.(type) {
	case *ast.ExprStmt:
		_, n, ok := callSel(s.X)
		return ok && n == name
	case *ast.AssignStmt:
		for _, r := range s.Rhs {
			if _, n, ok := callSel(r); ok && n == name {
				return true
			}
		}
	}
	return false
}

func isNilIdent(e ast.Expr) bool {
	id, ok := e.(*ast.Ident)
	return ok && id.Name == "nil"
}

// endsInReturn reports whether a block's last statement is a return.
func endsInReturn(b *ast.BlockStmt) bool {
	if b == nil || len(b.List) == 0 {
		return false
	}
	_, ok := b.List[len(b.List)-1].(*ast.ReturnStmt)
	return ok
}

// mentions reports whether the identifier name occurs in n.
func fmentions(n ast.Node, name string) bool {
	found := false
	if n == nil {
		return false
	}
	ast.Inspect(n, func(k ast.Node) bool {
		if id, ok := k.(*ast.Ident); ok && id.Name == name {
			found = true
		}
		return !found
	})
	return found
}

func fexprString(e ast.Expr) string {
	switch x := e.(type) {
	case *ast.Ident:
		return x.Name
	case *ast.SelectorExpr:
		return fexprString(x.X) + "." + x.Sel.Name
	case *ast.StarExpr:
		return fexprString(x.X)
	case *ast.ParenExpr:
		return fexprString(x.X)
	case *ast.UnaryExpr:
		return fexprString(x.X)
	}
	return "?"
}

// errGuard reports whether st is an if-chain on `err` all of whose branches end in return (the
// checks of the error a call just returned, in whichever of the equivalent shapes: one chain,
// or several consecutive ifs).
func errGuard(st ast.Stmt) bool {
	s, ok := st.(*ast.IfStmt)
	if !ok {
		return false
	}
	for cur := s; cur != nil; {
		if !fmentions(cur.Cond, "err") || !endsInReturn(cur.Body) {
			return false
		}
		switch e := cur.Else.(type) {
		case nil:
			cur = nil
		case *ast.IfStmt:
			cur = e
		default:
			return false
		}
	}
	return true
}

func analyseRenter(fset *token.FileSet, fn *ast.FuncDecl) renterFacts {
	rf := renterFacts{name: fn.Name.Name, found: true}
	var fundPos token.Pos
	fundGuards := map[ast.Stmt]bool{} // the if statement(s) right after the Fund assignment that check its error
	for i, st := range fn.Body.List {
		if stmtCalls(st, "FundV2Transaction") {
			fundPos = st.End()
			for k := i + 1; k < len(fn.Body.List) && errGuard(fn.Body.List[k]); k++ {
				fundGuards[fn.Body.List[k]] = true
			}
			// `if err != nil { return } else { rest }` is the same program
			if i+1 < len(fn.Body.List) {
				if s, ok := fn.Body.List[i+1].(*ast.IfStmt); ok && fmentions(s.Cond, "err") && endsInReturn(s.Body) {
					fundGuards[s] = true
				}
			}
		}
	}
	var walk func(block []ast.Stmt, inFundGuard, released bool)
	walk = func(block []ast.Stmt, inFundGuard, released bool) {
		for _, st := range block {
			switch s := st.(type) {
			case *ast.ExprStmt:
				if _, n, ok := callSel(s.X); ok && n == "ReleaseInputs" {
					released = true
				}
			case *ast.ReturnStmt:
				r := renterRet{line: fset.Position(s.Pos()).Line, afterFund: fundPos != token.NoPos && s.Pos() > fundPos, fundErr: inFundGuard, released: released}
				if n := len(s.Results); n > 0 {
					r.returnsErr = !isNilIdent(s.Results[n-1])
				}
				rf.rets = append(rf.rets, r)
			case *ast.IfStmt:
				guard := fundGuards[st]
				for cur := s; cur != nil; {
					// only the branches that test the error belong to the guard; a trailing
					// plain else is the rest of the function
					walk(cur.Body.List, inFundGuard || (guard && fmentions(cur.Cond, "err")), released)
					switch e := cur.Else.(type) {
					case *ast.IfStmt:
						cur = e
					case *ast.BlockStmt:
						walk(e.List, inFundGuard, released)
						cur = nil
					default:
						cur = nil
					}
				}
			case *ast.BlockStmt:
				walk(s.List, inFundGuard, released)
			case *ast.ForStmt:
				walk(s.Body.List, inFundGuard, released)
			case *ast.RangeStmt:
				walk(s.Body.List, inFundGuard, released)
			case *ast.SwitchStmt:
				for _, c := range s.Body.List {
					if cc, ok := c.(*ast.CaseClause); ok {
						walk(cc.Body, inFundGuard, released)
					}
				}
			}
		}
	}
	walk(fn.Body.List, false, false)

	// names do not matter: an "id value" is a call of a method ID() or a variable assigned from
	// one; the "locally signed contract" is the expression X of `X.RenterSignature = ….SignHash(…)`
	idVars := map[string]bool{}
	local := map[string]bool{}
	ast.Inspect(fn.Body, func(n ast.Node) bool {
		if a, ok := n.(*ast.AssignStmt); ok && len(a.Lhs) == 1 && len(a.Rhs) == 1 {
			if _, nm, ok := callSel(a.Rhs[0]); ok {
				if id, isIdent := a.Lhs[0].(*ast.Ident); isIdent && nm == "ID" {
					idVars[id.Name] = true
				}
				if sel, isSel := a.Lhs[0].(*ast.SelectorExpr); isSel && nm == "SignHash" && sel.Sel.Name == "RenterSignature" {
					local[fexprString(sel.X)] = true
				}
			}
		}
		return true
	})
	isID := func(e ast.Expr) bool {
		if _, nm, ok := callSel(e); ok && nm == "ID" {
			return true
		}
		id, ok := e.(*ast.Ident)
		return ok && idVars[id.Name]
	}
	ast.Inspect(fn.Body, func(n ast.Node) bool {
		switch x := n.(type) {
		case *ast.IfStmt:
			// the comparison must actually guard an error return
			if b, ok := x.Cond.(*ast.BinaryExpr); ok && b.Op == token.NEQ && isID(b.X) && isID(b.Y) && endsInReturn(x.Body) {
				rf.comparesTxnID = true
			}
		case *ast.KeyValueExpr:
			if k, ok := x.Key.(*ast.Ident); ok && k.Name == "Revision" {
				rf.returnsLocalContract = local[fexprString(x.Value)]
			}
		}
		return true
	})
	return rf
}

type hostFacts struct {
	name  string
	found bool
	// statement ranks (position order of the interesting statements; 0 = absent)
	fund, deferRelease, poolAdd, record, walletBroadcast, setBroadcast, finalWrite int
	returnsBetweenFundAndDefer                                                     int // not counting the returns guarding the Fund call's own error
	deferGuarded, deferReleasesTxn                                                 bool
	broadcastAssignments                                                           int
	detachesHostInputs                                                             bool
}

// releaseGuard analyses a deferred closure: does it call ReleaseInputs, on which flag does the
// call depend, and is it executed exactly when that flag is false?  Recognised shapes:
//
//	if flag { return }; …; ReleaseInputs(…)        if !flag { ReleaseInputs(…) }
//	if flag == false { ReleaseInputs(…) }           if flag { … } else { ReleaseInputs(…) }
func releaseGuard(fl *ast.FuncLit) (releases bool, flag string, guarded bool, args []ast.Expr) {
	isRelease := func(st ast.Stmt) ([]ast.Expr, bool) {
		if es, ok := st.(*ast.ExprStmt); ok {
			if c, ok := es.X.(*ast.CallExpr); ok {
				if _, nm, ok := callSel(c); ok && nm == "ReleaseInputs" {
					return c.Args, true
				}
			}
		}
		return nil, false
	}
	blockReleases := func(b *ast.BlockStmt) ([]ast.Expr, bool) {
		if b == nil {
			return nil, false
		}
		for _, st := range b.List {
			if a, ok := isRelease(st); ok {
				return a, true
			}
		}
		return nil, false
	}
	negated := func(e ast.Expr) (string, bool) { // !flag, flag == false, false == flag
		switch x := e.(type) {
		case *ast.ParenExpr:
			return "", false
		case *ast.UnaryExpr:
			if id, ok := x.X.(*ast.Ident); ok && x.Op == token.NOT {
				return id.Name, true
			}
		case *ast.BinaryExpr:
			if x.Op == token.EQL {
				l, lok := x.X.(*ast.Ident)
				r, rok := x.Y.(*ast.Ident)
				if lok && rok && r.Name == "false" {
					return l.Name, true
				}
				if lok && rok && l.Name == "false" {
					return r.Name, true
				}
			}
		}
		return "", false
	}
	earlyReturnOn := ""
	for _, st := range fl.Body.List {
		if a, ok := isRelease(st); ok {
			releases, args = true, a
			if earlyReturnOn != "" {
				flag, guarded = earlyReturnOn, true
			}
			return
		}
		if s, ok := st.(*ast.IfStmt); ok {
			if id, ok := s.Cond.(*ast.Ident); ok {
				if endsInReturn(s.Body) && len(s.Body.List) == 1 && s.Else == nil {
					earlyReturnOn = id.Name
					continue
				}
				if eb, ok := s.Else.(*ast.BlockStmt); ok {
					if a, ok := blockReleases(eb); ok {
						if _, also := blockReleases(s.Body); !also {
							return true, id.Name, true, a
						}
					}
				}
			}
			if name, ok := negated(s.Cond); ok && s.Else == nil {
				if a, ok := blockReleases(s.Body); ok {
					return true, name, true, a
				}
			}
			// a release somewhere else inside an if: present but not recognisably guarded
			found := false
			ast.Inspect(s, func(k ast.Node) bool {
				if c, ok := k.(*ast.CallExpr); ok {
					if _, nm, ok := callSel(c); ok && nm == "ReleaseInputs" {
						found, args = true, c.Args
					}
				}
				return true
			})
			if found {
				return true, "", false, args
			}
		}
	}
	return
}

func analyseHost(fset *token.FileSet, fn *ast.FuncDecl) hostFacts {
	hf := hostFacts{name: fn.Name.Name, found: true}
	// names do not matter: the transaction is what FundV2Transaction funds (`&T`), the set is the
	// second result of V2TransactionSet, the flag is what guards the deferred release
	txnVar, setVar, flagVar := "", "", ""
	fundIdx := -1
	for i, st := range fn.Body.List {
		if stmtCalls(st, "FundV2Transaction") {
			fundIdx = i
		}
	}
	ast.Inspect(fn.Body, func(n ast.Node) bool {
		switch x := n.(type) {
		case *ast.CallExpr:
			if _, nm, ok := callSel(x); ok && nm == "FundV2Transaction" && len(x.Args) > 0 {
				txnVar = fexprString(x.Args[0])
			}
		case *ast.AssignStmt:
			if len(x.Rhs) == 1 && len(x.Lhs) >= 2 {
				if _, nm, ok := callSel(x.Rhs[0]); ok && nm == "V2TransactionSet" {
					setVar = fexprString(x.Lhs[1])
				}
			}
		case *ast.DeferStmt:
			if fl, ok := x.Call.Fun.(*ast.FuncLit); ok {
				if rel, flag, _, _ := releaseGuard(fl); rel && flag != "" {
					flagVar = flag
				}
			}
		}
		return true
	})
	type ev struct {
		pos  token.Pos
		kind string
	}
	var evs []ev
	var deferPos token.Pos
	ast.Inspect(fn.Body, func(n ast.Node) bool {
		switch x := n.(type) {
		case *ast.DeferStmt:
			if fl, ok := x.Call.Fun.(*ast.FuncLit); ok {
				if rel, _, guarded, args := releaseGuard(fl); rel {
					evs = append(evs, ev{x.Pos(), "defer"})
					deferPos = x.Pos()
					hf.deferGuarded = guarded
					for _, a := range args {
						if txnVar != "" && fmentions(a, txnVar) {
							hf.deferReleasesTxn = true
						}
					}
				}
				return false
			}
		case *ast.CallExpr:
			recv, nm, ok := callSel(x)
			if !ok {
				return true
			}
			switch {
			case nm == "FundV2Transaction":
				evs = append(evs, ev{x.Pos(), "fund"})
			case nm == "AddV2PoolTransactions" && len(x.Args) == 2:
				if setVar != "" && fexprString(x.Args[1]) == setVar {
					evs = append(evs, ev{x.Pos(), "pool"})
				}
			case nm == "AddV2Contract" || nm == "RenewV2Contract":
				evs = append(evs, ev{x.Pos(), "record"})
			case nm == "BroadcastV2TransactionSet" && recv == "wallet":
				evs = append(evs, ev{x.Pos(), "wbroadcast"})
			case nm == "WriteResponse" && len(x.Args) == 2:
				if u, ok := x.Args[1].(*ast.UnaryExpr); ok {
					if cl, ok := u.X.(*ast.CompositeLit); ok {
						if s, ok := cl.Type.(*ast.SelectorExpr); ok && len(s.Sel.Name) > 13 && s.Sel.Name[len(s.Sel.Name)-13:] == "ThirdResponse" {
							evs = append(evs, ev{x.Pos(), "final"})
						}
					}
				}
			}
		case *ast.AssignStmt:
			if len(x.Lhs) == 1 && len(x.Rhs) == 1 {
				if id, ok := x.Lhs[0].(*ast.Ident); ok && flagVar != "" && id.Name == flagVar && x.Tok == token.ASSIGN {
					hf.broadcastAssignments++
					if v, ok := x.Rhs[0].(*ast.Ident); ok && v.Name == "true" {
						evs = append(evs, ev{x.Pos(), "set"})
					}
				}
				if s, ok := x.Lhs[0].(*ast.SelectorExpr); ok && s.Sel.Name == "SiacoinInputs" && txnVar != "" && fexprString(s.X) == txnVar {
					if _, ok := x.Rhs[0].(*ast.SliceExpr); ok {
						hf.detachesHostInputs = true
					}
				}
			}
		}
		return true
	})
	// returns between the Fund statement and the defer, outside the checks of Fund's own error
	if fundIdx >= 0 && deferPos != token.NoPos {
		guarding := true
		for i := fundIdx + 1; i < len(fn.Body.List); i++ {
			st := fn.Body.List[i]
			if st.Pos() >= deferPos {
				break
			}
			if guarding && errGuard(st) {
				continue
			}
			guarding = false
			ast.Inspect(st, func(n ast.Node) bool {
				if _, ok := n.(*ast.ReturnStmt); ok {
					hf.returnsBetweenFundAndDefer++
				}
				return true
			})
		}
	}
	// rank the events by position
	for i := 0; i < len(evs); i++ {
		for j := i + 1; j < len(evs); j++ {
			if evs[j].pos < evs[i].pos {
				evs[i], evs[j] = evs[j], evs[i]
			}
		}
	}
	for i, e := range evs {
		r := i + 1
		switch e.kind {
		case "fund":
			hf.fund = r
		case "defer":
			hf.deferRelease = r
		case "pool":
			hf.poolAdd = r
		case "record":
			hf.record = r
		case "wbroadcast":
			hf.walletBroadcast = r
		case "set":
			hf.setBroadcast = r
		case "final":
			hf.finalWrite = r
		}
	}
	return hf
}

func leanBool(b bool) string {
	if b {
		return "true"
	}
	return "false"
}

func genFormationFacts(repo string) ([]byte, error) {
	fset := token.NewFileSet()
	parse := func(name string) (*ast.File, error) {
		return parser.ParseFile(fset, filepath.Join(repo, "rhp", "v4", name), nil, 0)
	}
	rpc, err := parse("rpc.go")
	if err != nil {
		return nil, err
	}
	srv, err := parse("server.go")
	if err != nil {
		return nil, err
	}
	find := func(f *ast.File, name string) *ast.FuncDecl {
		for _, d := range f.Decls {
			if fn, ok := d.(*ast.FuncDecl); ok && fn.Name.Name == name && fn.Body != nil {
				return fn
			}
		}
		return nil
	}
	var b bytes.Buffer
	b.WriteString("/-\nREGENERATED by `vh srcfacts` (harness/srcfacts/formation.go) from /repo/rhp/v4/rpc.go and\n/repo/rhp/v4/server.go on every run.  Data only; the obligations are decided in Props/C16.lean.\n-/\nnamespace Verif.Extracted.Formation\n\n")
	b.WriteString("structure RenterRet where\n  line : Nat\n  afterFund : Bool\n  fundErr : Bool\n  returnsErr : Bool\n  released : Bool\n  deriving DecidableEq, Repr\n\n")
	b.WriteString("structure RenterFn where\n  found : Bool\n  rets : List RenterRet\n  comparesTxnID : Bool\n  returnsLocalContract : Bool\n  deriving DecidableEq, Repr\n\n")
	b.WriteString("structure HostFn where\n  found : Bool\n  fund : Nat\n  deferRelease : Nat\n  poolAdd : Nat\n  record : Nat\n  walletBroadcast : Nat\n  setBroadcast : Nat\n  finalWrite : Nat\n  returnsBetweenFundAndDefer : Nat\n  deferGuarded : Bool\n  deferReleasesTxn : Bool\n  broadcastAssignments : Nat\n  detachesHostInputs : Bool\n  deriving DecidableEq, Repr\n\n")
	for _, it := range []struct{ lean, goName string }{{"renterForm", "RPCFormContract"}, {"renterRenew", "RPCRenewContract"}, {"renterRefresh", "rpcRefreshContract"}} {
		rf := renterFacts{name: it.goName}
		if fn := find(rpc, it.goName); fn != nil {
			rf = analyseRenter(fset, fn)
		}
		fmt.Fprintf(&b, "/-- `%s` (rpc.go) -/\ndef %s : RenterFn where\n  found := %s\n  comparesTxnID := %s\n  returnsLocalContract := %s\n  rets := [", it.goName, it.lean, leanBool(rf.found), leanBool(rf.comparesTxnID), leanBool(rf.returnsLocalContract))
		for i, r := range rf.rets {
			if i > 0 {
				b.WriteString(",")
			}
			fmt.Fprintf(&b, "\n    ⟨%d, %s, %s, %s, %s⟩", r.line, leanBool(r.afterFund), leanBool(r.fundErr), leanBool(r.returnsErr), leanBool(r.released))
		}
		b.WriteString("]\n\n")
	}
	for _, it := range []struct{ lean, goName string }{{"hostForm", "handleRPCFormContract"}, {"hostRenew", "handleRPCRenewContract"}, {"hostRefresh", "handleRPCRefreshContract"}} {
		hf := hostFacts{name: it.goName}
		if fn := find(srv, it.goName); fn != nil {
			hf = analyseHost(fset, fn)
		}
		fmt.Fprintf(&b, "/-- `%s` (server.go) -/\ndef %s : HostFn :=\n  ⟨%s, %d, %d, %d, %d, %d, %d, %d, %d, %s, %s, %d, %s⟩\n\n", it.goName, it.lean, leanBool(hf.found),
			hf.fund, hf.deferRelease, hf.poolAdd, hf.record, hf.walletBroadcast, hf.setBroadcast, hf.finalWrite, hf.returnsBetweenFundAndDefer,
			leanBool(hf.deferGuarded), leanBool(hf.deferReleasesTxn), hf.broadcastAssignments, leanBool(hf.detachesHostInputs))
	}
	b.WriteString("end Verif.Extracted.Formation\n")
	return b.Bytes(), nil
}
