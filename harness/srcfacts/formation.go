package srcfacts

// C16: the release discipline of contract formation / renewal / refresh, extracted from
// /repo/rhp/v4/rpc.go (renter) and /repo/rhp/v4/server.go (host) with go/parser.  The generator
// emits *data* only:
//
//   - per client function, every `return` in source order with: is it after the
//     FundV2Transaction statement, is it the return guarding that call's own error, does it
//     return a non-nil error, is a ReleaseInputs call a preceding statement of the same block;
//     whether the function compares the transaction id of the host's final transaction with its
//     own, and whether the contract it returns is the locally built one;
//   - per host handler, the source positions (statement ranks) of the FundV2Transaction call, of
//     the deferred release (and whether it is `if broadcast { return }`-guarded and releases the
//     handler's transaction variable), of every return between the two, of the pool admission of
//     the full set, the contractor call, the wallet broadcast, `broadcast = true`, the final
//     WriteResponse; the number of assignments to `broadcast`; and whether any statement cuts the
//     handler's transaction down to a prefix of its inputs.
//
// Lean (Verif/Props/C16.lean) decides the obligations over these tables and derives the `Cfg` the
// theorems are instantiated with.

import (
	"bytes"
	"fmt"
	"go/ast"
	"go/parser"
	"go/token"
	"path/filepath"
)

func init() {
	generators = append(generators, generator{file: "FormationFacts.lean", gen: genFormationFacts})
}

type renterRet struct {
	line                                     int
	afterFund, fundErr, returnsErr, released bool
}

type renterFacts struct {
	name                 string
	found                bool
	rets                 []renterRet
	comparesTxnID        bool
	returnsLocalContract bool
}

func callSel(e ast.Expr) (recv, name string, ok bool) {
	c, ok := e.(*ast.CallExpr)
	if !ok {
		return "", "", false
	}
	s, ok := c.Fun.(*ast.SelectorExpr)
	if !ok {
		return "", "", false
	}
	if id, ok := s.X.(*ast.Ident); ok {
		return id.Name, s.Sel.Name, true
	}
	if s2, ok := s.X.(*ast.SelectorExpr); ok { // s.wallet.Fund…
		return s2.Sel.Name, s.Sel.Name, true
	}
	return "", s.Sel.Name, true
}

// stmtCalls reports whether the statement itself (not nested blocks) is or assigns from a call
// of method name.
func stmtCalls(st ast.Stmt, name string) bool {
	switch s := st.(type) {
	case *ast.ExprStmt:
		_, n, ok := callSel(s.X)
		return ok && n == name
	case *ast.AssignStmt:
		for _, r := range s.Rhs {
			if _, n, ok := callSel(r); ok && n == name {
				return true
			}
		}
	}
	return false
}

func isNilIdent(e ast.Expr) bool {
	id, ok := e.(*ast.Ident)
	return ok && id.Name == "nil"
}

func analyseRenter(fset *token.FileSet, fn *ast.FuncDecl) renterFacts {
	rf := renterFacts{name: fn.Name.Name, found: true}
	var fundPos token.Pos
	var fundGuard ast.Stmt // the if statement right after the Fund assignment
	for i, st := range fn.Body.List {
		if stmtCalls(st, "FundV2Transaction") {
			fundPos = st.End()
			if i+1 < len(fn.Body.List) {
				fundGuard = fn.Body.List[i+1]
			}
		}
	}
	var walk func(block []ast.Stmt, inFundGuard bool)
	walk = func(block []ast.Stmt, inFundGuard bool) {
		released := false
		for _, st := range block {
			switch s := st.(type) {
			case *ast.ExprStmt:
				if _, n, ok := callSel(s.X); ok && n == "ReleaseInputs" {
					released = true
				}
			case *ast.ReturnStmt:
				r := renterRet{line: fset.Position(s.Pos()).Line, afterFund: fundPos != token.NoPos && s.Pos() > fundPos, fundErr: inFundGuard, released: released}
				if n := len(s.Results); n > 0 {
					r.returnsErr = !isNilIdent(s.Results[n-1])
				}
				rf.rets = append(rf.rets, r)
			case *ast.IfStmt:
				for cur := s; cur != nil; {
					walk(cur.Body.List, inFundGuard || ast.Stmt(s) == fundGuard)
					switch e := cur.Else.(type) {
					case *ast.IfStmt:
						cur = e
					case *ast.BlockStmt:
						walk(e.List, inFundGuard || ast.Stmt(s) == fundGuard)
						cur = nil
					default:
						cur = nil
					}
				}
			case *ast.BlockStmt:
				walk(s.List, inFundGuard)
			case *ast.ForStmt:
				walk(s.Body.List, inFundGuard)
			case *ast.RangeStmt:
				walk(s.Body.List, inFundGuard)
			}
		}
	}
	walk(fn.Body.List, false)
	ast.Inspect(fn.Body, func(n ast.Node) bool {
		switch x := n.(type) {
		case *ast.BinaryExpr:
			if x.Op == token.NEQ {
				_, a, ok1 := callSel(x.X)
				_, b, ok2 := callSel(x.Y)
				if ok1 && ok2 && a == "ID" && b == "ID" {
					rf.comparesTxnID = true
				}
			}
			// form compares two precomputed ids
			if x.Op == token.NEQ {
				if l, ok := x.X.(*ast.Ident); ok {
					if r, ok := x.Y.(*ast.Ident); ok && l.Name == "formationTxnID" && r.Name == "hostFormationTxnID" {
						rf.comparesTxnID = true
					}
				}
			}
		case *ast.KeyValueExpr:
			if k, ok := x.Key.(*ast.Ident); ok && k.Name == "Revision" {
				switch v := x.Value.(type) {
				case *ast.Ident:
					rf.returnsLocalContract = v.Name == "fc"
				case *ast.SelectorExpr:
					if id, ok := v.X.(*ast.Ident); ok {
						rf.returnsLocalContract = id.Name == "renewal" && v.Sel.Name == "NewContract"
					}
				}
			}
		}
		return true
	})
	return rf
}

type hostFacts struct {
	name  string
	found bool
	// statement ranks (position order of the interesting statements; 0 = absent)
	fund, deferRelease, poolAdd, record, walletBroadcast, setBroadcast, finalWrite int
	returnsBetweenFundAndDefer                                                     int // not counting the returns guarding the Fund call's own error
	deferGuarded, deferReleasesTxn                                                 bool
	broadcastAssignments                                                           int
	detachesHostInputs                                                             bool
}

func analyseHost(fset *token.FileSet, fn *ast.FuncDecl) hostFacts {
	hf := hostFacts{name: fn.Name.Name, found: true}
	txnVar := "renewalTxn"
	if fn.Name.Name == "handleRPCFormContract" {
		txnVar = "formationTxn"
	}
	type ev struct {
		pos  token.Pos
		kind string
	}
	var evs []ev
	var fundIdx = -1
	for i, st := range fn.Body.List {
		if stmtCalls(st, "FundV2Transaction") {
			fundIdx = i
		}
	}
	var fundEnd, deferPos token.Pos
	if fundIdx >= 0 {
		fundEnd = fn.Body.List[fundIdx].End()
	}
	ast.Inspect(fn.Body, func(n ast.Node) bool {
		switch x := n.(type) {
		case *ast.DeferStmt:
			if fl, ok := x.Call.Fun.(*ast.FuncLit); ok {
				releases, guarded, txn := false, false, false
				ast.Inspect(fl.Body, func(m ast.Node) bool {
					switch y := m.(type) {
					case *ast.CallExpr:
						if _, nm, ok := callSel(y); ok && nm == "ReleaseInputs" {
							releases = true
							for _, a := range y.Args {
								ast.Inspect(a, func(k ast.Node) bool {
									if id, ok := k.(*ast.Ident); ok && id.Name == txnVar {
										txn = true
									}
									return true
								})
							}
						}
					case *ast.IfStmt:
						if id, ok := y.Cond.(*ast.Ident); ok && id.Name == "broadcast" && len(y.Body.List) == 1 {
							if _, ok := y.Body.List[0].(*ast.ReturnStmt); ok {
								guarded = true
							}
						}
					}
					return true
				})
				if releases {
					evs = append(evs, ev{x.Pos(), "defer"})
					deferPos = x.Pos()
					hf.deferGuarded, hf.deferReleasesTxn = guarded, txn
				}
				return false
			}
		case *ast.CallExpr:
			recv, nm, ok := callSel(x)
			if !ok {
				return true
			}
			switch {
			case nm == "FundV2Transaction":
				evs = append(evs, ev{x.Pos(), "fund"})
			case nm == "AddV2PoolTransactions" && len(x.Args) == 2:
				if id, ok := x.Args[1].(*ast.Ident); ok && (id.Name == "formationSet" || id.Name == "renewalSet") {
					evs = append(evs, ev{x.Pos(), "pool"})
				}
			case nm == "AddV2Contract" || nm == "RenewV2Contract":
				evs = append(evs, ev{x.Pos(), "record"})
			case nm == "BroadcastV2TransactionSet" && recv == "wallet":
				evs = append(evs, ev{x.Pos(), "wbroadcast"})
			case nm == "WriteResponse" && len(x.Args) == 2:
				if u, ok := x.Args[1].(*ast.UnaryExpr); ok {
					if cl, ok := u.X.(*ast.CompositeLit); ok {
						if s, ok := cl.Type.(*ast.SelectorExpr); ok && len(s.Sel.Name) > 13 && s.Sel.Name[len(s.Sel.Name)-13:] == "ThirdResponse" {
							evs = append(evs, ev{x.Pos(), "final"})
						}
					}
				}
			}
		case *ast.AssignStmt:
			if len(x.Lhs) == 1 {
				if id, ok := x.Lhs[0].(*ast.Ident); ok && id.Name == "broadcast" && x.Tok == token.ASSIGN {
					hf.broadcastAssignments++
					if v, ok := x.Rhs[0].(*ast.Ident); ok && v.Name == "true" {
						evs = append(evs, ev{x.Pos(), "set"})
					}
				}
				if s, ok := x.Lhs[0].(*ast.SelectorExpr); ok && s.Sel.Name == "SiacoinInputs" {
					if id, ok := s.X.(*ast.Ident); ok && id.Name == txnVar {
						if _, ok := x.Rhs[0].(*ast.SliceExpr); ok {
							hf.detachesHostInputs = true
						}
					}
				}
			}
		}
		return true
	})
	// returns between the Fund statement and the defer, outside the if-chain that guards Fund
	if fundIdx >= 0 && deferPos != token.NoPos {
		for i := fundIdx + 1; i < len(fn.Body.List); i++ {
			st := fn.Body.List[i]
			if st.Pos() >= deferPos {
				break
			}
			if i == fundIdx+1 {
				if _, ok := st.(*ast.IfStmt); ok {
					continue // `if errors.Is(err, …) { return } else if err != nil { return }`
				}
			}
			ast.Inspect(st, func(n ast.Node) bool {
				if _, ok := n.(*ast.ReturnStmt); ok {
					hf.returnsBetweenFundAndDefer++
				}
				return true
			})
		}
	}
	_ = fundEnd
	// rank the events by position
	for i := 0; i < len(evs); i++ {
		for j := i + 1; j < len(evs); j++ {
			if evs[j].pos < evs[i].pos {
				evs[i], evs[j] = evs[j], evs[i]
			}
		}
	}
	for i, e := range evs {
		r := i + 1
		switch e.kind {
		case "fund":
			hf.fund = r
		case "defer":
			hf.deferRelease = r
		case "pool":
			hf.poolAdd = r
		case "record":
			hf.record = r
		case "wbroadcast":
			hf.walletBroadcast = r
		case "set":
			hf.setBroadcast = r
		case "final":
			hf.finalWrite = r
		}
	}
	return hf
}

func leanBool(b bool) string {
	if b {
		return "true"
	}
	return "false"
}

func genFormationFacts(repo string) ([]byte, error) {
	fset := token.NewFileSet()
	parse := func(name string) (*ast.File, error) {
		return parser.ParseFile(fset, filepath.Join(repo, "rhp", "v4", name), nil, 0)
	}
	rpc, err := parse("rpc.go")
	if err != nil {
		return nil, err
	}
	srv, err := parse("server.go")
	if err != nil {
		return nil, err
	}
	find := func(f *ast.File, name string) *ast.FuncDecl {
		for _, d := range f.Decls {
			if fn, ok := d.(*ast.FuncDecl); ok && fn.Name.Name == name && fn.Body != nil {
				return fn
			}
		}
		return nil
	}
	var b bytes.Buffer
	b.WriteString("/-\nREGENERATED by `vh srcfacts` (harness/srcfacts/formation.go) from /repo/rhp/v4/rpc.go and\n/repo/rhp/v4/server.go on every run.  Data only; the obligations are decided in Props/C16.lean.\n-/\nnamespace Verif.Extracted.Formation\n\n")
	b.WriteString("structure RenterRet where\n  line : Nat\n  afterFund : Bool\n  fundErr : Bool\n  returnsErr : Bool\n  released : Bool\n  deriving DecidableEq, Repr\n\n")
	b.WriteString("structure RenterFn where\n  found : Bool\n  rets : List RenterRet\n  comparesTxnID : Bool\n  returnsLocalContract : Bool\n  deriving DecidableEq, Repr\n\n")
	b.WriteString("structure HostFn where\n  found : Bool\n  fund : Nat\n  deferRelease : Nat\n  poolAdd : Nat\n  record : Nat\n  walletBroadcast : Nat\n  setBroadcast : Nat\n  finalWrite : Nat\n  returnsBetweenFundAndDefer : Nat\n  deferGuarded : Bool\n  deferReleasesTxn : Bool\n  broadcastAssignments : Nat\n  detachesHostInputs : Bool\n  deriving DecidableEq, Repr\n\n")
	for _, it := range []struct{ lean, goName string }{{"renterForm", "RPCFormContract"}, {"renterRenew", "RPCRenewContract"}, {"renterRefresh", "rpcRefreshContract"}} {
		rf := renterFacts{name: it.goName}
		if fn := find(rpc, it.goName); fn != nil {
			rf = analyseRenter(fset, fn)
		}
		fmt.Fprintf(&b, "/-- `%s` (rpc.go) -/\ndef %s : RenterFn where\n  found := %s\n  comparesTxnID := %s\n  returnsLocalContract := %s\n  rets := [", it.goName, it.lean, leanBool(rf.found), leanBool(rf.comparesTxnID), leanBool(rf.returnsLocalContract))
		for i, r := range rf.rets {
			if i > 0 {
				b.WriteString(",")
			}
			fmt.Fprintf(&b, "\n    ⟨%d, %s, %s, %s, %s⟩", r.line, leanBool(r.afterFund), leanBool(r.fundErr), leanBool(r.returnsErr), leanBool(r.released))
		}
		b.WriteString("]\n\n")
	}
	for _, it := range []struct{ lean, goName string }{{"hostForm", "handleRPCFormContract"}, {"hostRenew", "handleRPCRenewContract"}, {"hostRefresh", "handleRPCRefreshContract"}} {
		hf := hostFacts{name: it.goName}
		if fn := find(srv, it.goName); fn != nil {
			hf = analyseHost(fset, fn)
		}
		fmt.Fprintf(&b, "/-- `%s` (server.go) -/\ndef %s : HostFn :=\n  ⟨%s, %d, %d, %d, %d, %d, %d, %d, %d, %s, %s, %d, %s⟩\n\n", it.goName, it.lean, leanBool(hf.found),
			hf.fund, hf.deferRelease, hf.poolAdd, hf.record, hf.walletBroadcast, hf.setBroadcast, hf.finalWrite, hf.returnsBetweenFundAndDefer,
			leanBool(hf.deferGuarded), leanBool(hf.deferReleasesTxn), hf.broadcastAssignments, leanBool(hf.detachesHostInputs))
	}
	b.WriteString("end Verif.Extracted.Formation\n")
	return b.Bytes(), nil
}
