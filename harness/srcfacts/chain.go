package srcfacts

// C01/C03/C04/C19: a small translator from /repo/chain/manager.go to a *control skeleton* of the
// functions the Lean chain-manager model (lean/Verif/Model/Chain.lean) transcribes, plus the
// *frame* of the whole file (which functions write to the store or assign the tip).  Data only:
// lean/Verif/Lemmas/Skel.lean defines the predicates over the skeleton and the property files
// prove (by kernel evaluation) that the regenerated skeleton has the shape the model assumes.
//
// The skeleton is deliberately insensitive to logging, error texts, comments and the names of
// local variables (conditions are reduced to the calls, manager fields, parameters and operators
// they mention), so that harmless rewrites do not move it; it moves when a guard, a call, their
// order, a return or a loop bound changes.

import (
	"fmt"
	"go/ast"
	"go/parser"
	"go/token"
	"go/types"
	"path/filepath"
	"sort"
	"strings"
)

func init() {
	generators = append(generators, generator{file: "ChainSkel.lean", gen: genChainSkel})
}

// functions whose skeleton is emitted
var skelFuncs = []string{"AddBlocks", "AddValidatedV2Blocks", "revertTip", "applyTip", "reorgPath", "reorgTo", "PruneBlocks", "UpdatesSince", "blockAndParent"}

// store methods that change the store
var storeWrites = map[string]bool{"AddBlock": true, "AddState": true, "ApplyBlock": true, "RevertBlock": true, "PruneBlock": true, "Flush": true}

func exprString(e ast.Expr) string { return types.ExprString(e) }

// insignificant call prefixes (logging, formatting, pure conversions)
func significantCall(name string) bool {
	for _, p := range []string{"log.", "m.log.", "zap.", "fmt.", "errors.", "append", "len", "make", "new", "time.", "panic", "string", "[]byte", "uint64", "int", "int64", "uint32", "byte"} {
		if name == strings.TrimSuffix(p, ".") || strings.HasPrefix(name, p) {
			return false
		}
	}
	return true
}

type skelWalker struct {
	self    string // name of the receiver variable ("m" for the manager)
	params  map[string]bool
	imports map[string]bool
	toks    []string
	// closures: local function variables, numbered in definition order (their names are free)
	closures map[string]string
	// helpers: unexported methods of the same receiver type declared in the file that are not in
	// the opaque set; a call of one is replaced by its body (an "extract helper" refactoring does
	// not move the skeleton)
	helpers map[string]*ast.FuncDecl
	depth   int
}

// normSel prints a selector/index chain rooted at the receiver with the index expressions elided
// (`db.puts[bucket][string(key)]` -> "db.puts[][]"); ok is false for anything else.
func (w *skelWalker) normSel(e ast.Expr) (string, bool) {
	switch x := e.(type) {
	case *ast.Ident:
		if x.Name == w.self {
			return x.Name, true
		}
	case *ast.SelectorExpr:
		if s, ok := w.normSel(x.X); ok {
			return s + "." + x.Sel.Name, true
		}
	case *ast.IndexExpr:
		if s, ok := w.normSel(x.X); ok {
			return s + "[]", true
		}
	case *ast.ParenExpr:
		return w.normSel(x.X)
	case *ast.StarExpr:
		return w.normSel(x.X)
	}
	return "", false
}

// callee prints the callee of a call; a method call on a *local* variable keeps only the method
// name (".Method"), so that renaming locals does not move the skeleton.  Receivers that are the
// manager `m`, a parameter or an imported package are kept.
func (w *skelWalker) callee(fun ast.Expr) string {
	s := exprString(fun)
	sel, ok := fun.(*ast.SelectorExpr)
	if !ok {
		if id, isId := fun.(*ast.Ident); isId {
			if n, isCl := w.closures[id.Name]; isCl {
				return n
			}
		}
		return s
	}
	root := sel.X
	for {
		if x, ok := root.(*ast.SelectorExpr); ok {
			root = x.X
			continue
		}
		if x, ok := root.(*ast.CallExpr); ok {
			root = x.Fun
			continue
		}
		break
	}
	if id, ok := root.(*ast.Ident); ok && (id.Name == w.self || w.params[id.Name] || w.imports[id.Name]) {
		if n, ok := w.normSel(fun); ok {
			return n
		}
		return s
	}
	return "." + sel.Sel.Name
}

func leanStrList(xs []string) string {
	q := make([]string, len(xs))
	for i, x := range xs {
		q[i] = fmt.Sprintf("%q", x)
	}
	return "[" + strings.Join(q, ", ") + "]"
}

// uses collects, in source order, the calls, maximal `m.…` selectors and parameters mentioned by
// the expressions, and the binary/unary operators.
func (w *skelWalker) uses(nodes ...ast.Node) (uses, ops []string) {
	for _, n := range nodes {
		if n == nil {
			continue
		}
		var visit func(x ast.Node) bool
		visit = func(x ast.Node) bool {
			switch e := x.(type) {
			case *ast.CallExpr:
				if conv := exprString(e.Fun); conv == "uint64" || conv == "int" || conv == "int64" || conv == "uint32" || conv == "byte" || conv == "string" || conv == "[]byte" {
					// a type conversion: only its operand matters
					for _, a := range e.Args {
						ast.Inspect(a, visit)
					}
					return false
				}
				uses = append(uses, w.callee(e.Fun)+"()")
				// the receiver chain of the callee and the arguments
				if sel, ok := e.Fun.(*ast.SelectorExpr); ok {
					ast.Inspect(sel.X, visit)
				}
				for _, a := range e.Args {
					ast.Inspect(a, visit)
				}
				return false
			case *ast.SelectorExpr:
				if s, ok := w.normSel(e); ok {
					uses = append(uses, s)
					return false
				}
				return true
			case *ast.IndexExpr:
				if s, ok := w.normSel(e); ok {
					uses = append(uses, s)
					return false
				}
				return true
			case *ast.Ident:
				if w.params[e.Name] {
					uses = append(uses, e.Name)
				}
			case *ast.BinaryExpr:
				// in-order: left, operator, right
				ast.Inspect(e.X, visit)
				ops = append(ops, e.Op.String())
				ast.Inspect(e.Y, visit)
				return false
			case *ast.UnaryExpr:
				if e.Op == token.NOT {
					ops = append(ops, "!")
				}
			case *ast.IncDecStmt:
				ops = append(ops, e.Tok.String())
			case *ast.FuncLit:
				return false
			}
			return true
		}
		ast.Inspect(n, visit)
	}
	return
}

// fieldPath prints a selector chain without its root identifier (`b.ParentID` -> ".ParentID",
// `id` -> "_").
func fieldPath(e ast.Expr) string {
	switch x := e.(type) {
	case *ast.Ident:
		return "_"
	case *ast.SelectorExpr:
		p := fieldPath(x.X)
		if p == "_" {
			p = ""
		}
		return p + "." + x.Sel.Name
	}
	return "?"
}

func (w *skelWalker) emit(s string) { w.toks = append(w.toks, s) }

// reads emits a `get` pseudo-call for every receiver-rooted map READ (index expression) in e.
func (w *skelWalker) reads(e ast.Node) {
	ast.Inspect(e, func(x ast.Node) bool {
		switch y := x.(type) {
		case *ast.FuncLit:
			return false
		case *ast.IndexExpr:
			if s, ok := w.normSel(y); ok {
				w.emit(fmt.Sprintf(".call \"get\" %s", leanStrList([]string{s})))
				return false
			}
		}
		return true
	})
}

// calls emits the significant calls (and nested function literals) of an expression or simple
// statement, in source (evaluation) order.
func (w *skelWalker) calls(n ast.Node) {
	if n == nil {
		return
	}
	ast.Inspect(n, func(x ast.Node) bool {
		switch e := x.(type) {
		case *ast.FuncLit:
			w.emit(".fn")
			w.block(e.Body)
			w.emit(".done")
			return false
		case *ast.CallExpr:
			// arguments are evaluated first
			for _, a := range e.Args {
				w.calls(a)
			}
			if sel, ok := e.Fun.(*ast.SelectorExpr); ok {
				w.calls(sel.X)
			}
			name := w.callee(e.Fun)
			if hd, ok := w.helpers[name]; ok && w.depth < 2 {
				w.inline(hd)
				return false
			}
			if name == "maps.Copy" && len(e.Args) == 2 {
				// maps.Copy(dst, src) is the loop `for k, v := range src { dst[k] = v }`
				src := exprString(e.Args[1])
				if n, ok := w.normSel(e.Args[1]); ok {
					src = n
				}
				w.emit(fmt.Sprintf(".loop %s []", leanStrList([]string{"range", src})))
				if n, ok := w.normSel(e.Args[0]); ok {
					w.emit(fmt.Sprintf(".set %q", n+"[]"))
				}
				w.emit(".done")
				return false
			}
			if name == "clear" && len(e.Args) == 1 {
				if n, ok := w.normSel(e.Args[0]); ok && !strings.HasSuffix(n, "]") {
					// clear(m) of a receiver's map field is the loop `for k := range m { delete(m, k) }`
					w.emit(fmt.Sprintf(".loop %s []", leanStrList([]string{"range", n})))
					w.emit(fmt.Sprintf(".call \"delete\" %s", leanStrList([]string{n})))
					w.emit(".done")
					return false
				}
			}
			if name == "panic" {
				w.emit(".panic")
			} else if name == "delete" || name == "clear" {
				// map builtins: the map operated on, when it belongs to the receiver
				var args []string
				if len(e.Args) > 0 {
					if n, ok := w.normSel(e.Args[0]); ok {
						args = append(args, n)
					} else {
						args = append(args, "_")
					}
				}
				w.emit(fmt.Sprintf(".call %q %s", name, leanStrList(args)))
			} else if significantCall(name) && significantCall(exprString(e.Fun)) {
				var args []string
				if w.self == "m" && strings.HasPrefix(name, "m.") && !strings.HasPrefix(name, "m.store.") && !strings.HasPrefix(name, "m.mu.") {
					for _, a := range e.Args {
						args = append(args, exprString(a))
					}
				}
				if strings.HasSuffix(name, ".AncestorTimestamp") {
					// which block's ancestor is asked for: the field path of the argument without
					// the local it hangs on (`b.ParentID` -> ".ParentID")
					for _, a := range e.Args {
						args = append(args, fieldPath(a))
					}
				}
				w.emit(fmt.Sprintf(".call %q %s", name, leanStrList(args)))
			}
			return false
		}
		return true
	})
}

func (w *skelWalker) retVal(e ast.Expr) string {
	if s, ok := w.normSel(e); ok {
		if _, isIdx := e.(*ast.IndexExpr); isIdx {
			return "v:" + s
		}
	}
	return retVal(e)
}

func retVal(e ast.Expr) string {
	if id, ok := e.(*ast.Ident); ok && (id.Name == "nil" || id.Name == "true" || id.Name == "false") {
		return id.Name
	}
	if c, ok := e.(*ast.CallExpr); ok {
		n := exprString(c.Fun)
		if n == "fmt.Errorf" || n == "errors.New" {
			return "E"
		}
	}
	if id, ok := e.(*ast.Ident); ok && (id.Name == "err" || strings.HasPrefix(id.Name, "Err")) {
		return "E"
	}
	if be, ok := e.(*ast.BinaryExpr); ok {
		// a combination of locals: keep the operator (e.g. the found flag `ok && ok2`)
		return "v:" + be.Op.String()
	}
	return "v"
}

func (w *skelWalker) stmt(s ast.Stmt) {
	switch st := s.(type) {
	case nil:
	case *ast.BlockStmt:
		w.block(st)
	case *ast.IfStmt:
		if st.Init != nil {
			w.stmt(st.Init)
		}
		w.calls(st.Cond)
		u, o := w.uses(st.Cond)
		w.emit(fmt.Sprintf(".ifc %s %s", leanStrList(u), leanStrList(o)))
		w.block(st.Body)
		if st.Else != nil && terminates(st.Body) {
			// `if c { …; return } else { rest }` and `if c { …; return }; rest` are the same
			// program: canonical form is the second
			w.emit(".done")
			if eb, ok := st.Else.(*ast.BlockStmt); ok {
				w.block(eb)
			} else {
				w.stmt(st.Else)
			}
			return
		}
		if st.Else != nil {
			w.emit(".els")
			w.stmt(st.Else)
		}
		w.emit(".done")
	case *ast.ForStmt:
		if st.Init != nil {
			w.stmt(st.Init)
		}
		var nodes []ast.Node
		if st.Init != nil {
			nodes = append(nodes, st.Init)
		}
		if st.Cond != nil {
			nodes = append(nodes, st.Cond)
		}
		if st.Post != nil {
			nodes = append(nodes, st.Post)
		}
		u, o := w.uses(nodes...)
		w.emit(fmt.Sprintf(".loop %s %s", leanStrList(u), leanStrList(o)))
		if st.Cond != nil {
			w.calls(st.Cond)
		}
		w.block(st.Body)
		w.emit(".done")
	case *ast.RangeStmt:
		u, o := w.uses(st.X)
		if id, ok := st.X.(*ast.Ident); ok && len(u) == 0 {
			u = []string{id.Name}
		}
		w.emit(fmt.Sprintf(".loop %s %s", leanStrList(append([]string{"range"}, u...)), leanStrList(o)))
		w.block(st.Body)
		w.emit(".done")
	case *ast.ReturnStmt:
		for _, r := range st.Results {
			w.calls(r)
		}
		vals := make([]string, len(st.Results))
		for i, r := range st.Results {
			vals[i] = w.retVal(r)
		}
		w.emit(fmt.Sprintf(".ret %s", leanStrList(vals)))
	case *ast.BranchStmt:
		switch st.Tok {
		case token.CONTINUE:
			w.emit(".cont")
		case token.BREAK:
			w.emit(".brk")
		}
	case *ast.AssignStmt:
		if len(st.Lhs) == 1 && len(st.Rhs) == 1 {
			if id, ok := st.Lhs[0].(*ast.Ident); ok {
				if _, isFn := st.Rhs[0].(*ast.FuncLit); isFn {
					if w.closures == nil {
						w.closures = map[string]string{}
					}
					w.closures[id.Name] = fmt.Sprintf("closure%d", len(w.closures)+1)
				}
			}
		}
		for _, r := range st.Rhs {
			w.calls(r)
			w.reads(r)
		}
		for _, l := range st.Lhs {
			if ls, ok := w.normSel(l); ok && ls != w.self {
				w.emit(fmt.Sprintf(".set %q", ls))
			}
		}
	case *ast.ExprStmt:
		w.calls(st.X)
	case *ast.DeferStmt:
		w.emit(".defer")
		w.calls(st.Call)
	case *ast.DeclStmt:
		w.calls(st)
	case *ast.IncDecStmt, *ast.EmptyStmt:
	case *ast.SwitchStmt:
		if st.Init != nil {
			w.stmt(st.Init)
		}
		if st.Tag != nil {
			w.calls(st.Tag)
		}
		for _, c := range st.Body.List {
			cc := c.(*ast.CaseClause)
			var nodes []ast.Node
			for _, e := range cc.List {
				nodes = append(nodes, e)
			}
			u, o := w.uses(nodes...)
			w.emit(fmt.Sprintf(".ifc %s %s", leanStrList(append([]string{"case"}, u...)), leanStrList(o)))
			for _, b := range cc.Body {
				w.stmt(b)
			}
			w.emit(".done")
		}
	default:
		w.emit(fmt.Sprintf(".call %q []", fmt.Sprintf("?%T", s)))
	}
}

// inline emits the body of an extracted helper in place of its call: its receiver is renamed to
// the caller's, a trailing return is dropped.
func (w *skelWalker) inline(hd *ast.FuncDecl) {
	sub := &skelWalker{params: map[string]bool{}, imports: w.imports, helpers: w.helpers, depth: w.depth + 1}
	if hd.Recv != nil && len(hd.Recv.List) == 1 && len(hd.Recv.List[0].Names) == 1 {
		sub.self = hd.Recv.List[0].Names[0].Name
	}
	sub.block(hd.Body)
	toks := sub.toks
	if n := len(toks); n > 0 && strings.HasPrefix(toks[n-1], ".ret") {
		toks = toks[:n-1]
	}
	for _, t := range toks {
		if sub.self != "" && sub.self != w.self {
			t = strings.ReplaceAll(t, "\""+sub.self+".", "\""+w.self+".")
		}
		w.emit(t)
	}
}

// terminates reports whether control never falls out of the end of the block (its last statement
// is a return, break, continue, goto or a call of panic).
func terminates(b *ast.BlockStmt) bool {
	if b == nil || len(b.List) == 0 {
		return false
	}
	switch st := b.List[len(b.List)-1].(type) {
	case *ast.ReturnStmt, *ast.BranchStmt:
		return true
	case *ast.ExprStmt:
		if c, ok := st.X.(*ast.CallExpr); ok {
			if id, ok := c.Fun.(*ast.Ident); ok && id.Name == "panic" {
				return true
			}
		}
	case *ast.IfStmt:
		if st.Else == nil {
			return false
		}
		if eb, ok := st.Else.(*ast.BlockStmt); ok {
			return terminates(st.Body) && terminates(eb)
		}
		if ei, ok := st.Else.(*ast.IfStmt); ok {
			return terminates(st.Body) && terminates(&ast.BlockStmt{List: []ast.Stmt{ei}})
		}
	}
	return false
}

func (w *skelWalker) block(b *ast.BlockStmt) {
	if b == nil {
		return
	}
	for _, s := range b.List {
		w.stmt(s)
	}
}

func genChainSkel(repo string) ([]byte, error) {
	fset := token.NewFileSet()
	f, err := parser.ParseFile(fset, filepath.Join(repo, "chain", "manager.go"), nil, 0)
	if err != nil {
		return nil, err
	}
	skels := map[string][]string{}
	type frame struct {
		fn     string
		writes []string
		sets   []string
	}
	var frames []frame
	for _, d := range f.Decls {
		fd, ok := d.(*ast.FuncDecl)
		if !ok || fd.Body == nil {
			continue
		}
		name := fd.Name.Name
		// frame: store writes and assignments to manager fields of chain state
		wset, sset := map[string]bool{}, map[string]bool{}
		ast.Inspect(fd.Body, func(x ast.Node) bool {
			switch e := x.(type) {
			case *ast.CallExpr:
				if sel, ok := e.Fun.(*ast.SelectorExpr); ok && storeWrites[sel.Sel.Name] {
					if s := exprString(sel.X); s == "m.store" || s == "s" || s == "store" {
						wset[sel.Sel.Name] = true
					}
				}
			case *ast.AssignStmt:
				for _, l := range e.Lhs {
					if ls := exprString(l); ls == "m.tipState" || ls == "m.store" || strings.HasPrefix(ls, "m.tipState.") {
						sset[ls] = true
					}
				}
			}
			return true
		})
		if len(wset)+len(sset) > 0 {
			fr := frame{fn: name}
			for k := range wset {
				fr.writes = append(fr.writes, k)
			}
			for k := range sset {
				fr.sets = append(fr.sets, k)
			}
			sort.Strings(fr.writes)
			sort.Strings(fr.sets)
			frames = append(frames, fr)
		}
		want := false
		for _, s := range skelFuncs {
			if s == name {
				want = true
			}
		}
		if !want {
			continue
		}
		w := &skelWalker{params: map[string]bool{}, imports: map[string]bool{}}
		if fd.Recv != nil && len(fd.Recv.List) == 1 && len(fd.Recv.List[0].Names) == 1 {
			w.self = fd.Recv.List[0].Names[0].Name
		}
		w.helpers = helpersFor(f, knownManagerFuncs, recvType(fd), w.self)
		for _, im := range f.Imports {
			p := strings.Trim(im.Path.Value, "\"")
			n := p[strings.LastIndex(p, "/")+1:]
			if im.Name != nil {
				n = im.Name.Name
			}
			w.imports[n] = true
		}
		if fd.Type.Params != nil {
			for _, p := range fd.Type.Params.List {
				for _, n := range p.Names {
					w.params[n.Name] = true
				}
			}
		}
		w.block(fd.Body)
		skels[name] = w.toks
	}
	sort.Slice(frames, func(i, j int) bool { return frames[i].fn < frames[j].fn })

	var b strings.Builder
	b.WriteString("/- GENERATED by harness/srcfacts (chain.go) from /repo/chain/manager.go on every run; do not edit.\n")
	b.WriteString("   Data only: the control skeleton of the chain-manager functions the model transcribes, and the\n")
	b.WriteString("   frame (which functions of the file write to the store / assign the tip). -/\n")
	b.WriteString("import Verif.Lemmas.SkelTok\n\nnamespace Verif.Extracted\nopen Verif.Skel Verif.Skel.Tok\n\n")
	for _, name := range skelFuncs {
		fmt.Fprintf(&b, "def skel_%s : List Tok := [\n", name)
		toks := skels[name]
		for i, t := range toks {
			sep := ","
			if i == len(toks)-1 {
				sep = ""
			}
			fmt.Fprintf(&b, "  %s%s\n", strings.Replace(t, ".", "Tok.", 1), sep)
		}
		b.WriteString("]\n\n")
	}
	// lock discipline of the whole file: per method of Manager, the operations on m.mu in source
	// order, whether the method is exported, and whether it touches the manager's state directly
	b.WriteString("/-- type of `Manager.mu` as written in the struct declaration -/\n")
	fmt.Fprintf(&b, "def managerMutexType : String := %q\n\n", managerMutexType(f))
	b.WriteString("/-- (method of Manager, exported, operations on m.mu in source order, touches m.tipState/m.store/m.txpool/listener maps directly, touches them before the first operation on m.mu) -/\n")
	b.WriteString("def managerLocks : List (String × Bool × List String × Bool × Bool) := [\n")
	lp := managerLockProfiles(f)
	for i, l := range lp {
		sep := ","
		if i == len(lp)-1 {
			sep = ""
		}
		fmt.Fprintf(&b, "  (%q, %v, %s, %v, %v)%s\n", l.name, l.exported, leanStrList(l.ops), l.touches, l.early, sep)
	}
	b.WriteString("]\n\n")
	b.WriteString("/-- (function, store-writing methods it calls, manager chain-state fields it assigns) -/\n")
	b.WriteString("def chainFrame : List (String × List String × List String) := [\n")
	for i, fr := range frames {
		sep := ","
		if i == len(frames)-1 {
			sep = ""
		}
		fmt.Fprintf(&b, "  (%q, %s, %s)%s\n", fr.fn, leanStrList(fr.writes), leanStrList(fr.sets), sep)
	}
	b.WriteString("]\n\nend Verif.Extracted\n")
	return []byte(b.String()), nil
}


// ---- chain/db.go: the key/value backends (C17) ----

func init() {
	generators = append(generators, generator{file: "DBSkel.lean", gen: genDBSkel})
}

var dbSkelFuncs = []string{"MemDB.Flush", "MemDB.Cancel", "MemDB.get", "MemDB.put", "MemDB.delete", "MemDB.Bucket", "MemDB.CreateBucket",
	"cacheBucket.Get", "cacheBucket.Put", "cacheBucket.Delete", "cacheBucket.Iter",
	"CacheDB.Bucket", "CacheDB.CreateBucket", "CacheDB.Flush", "CacheDB.Cancel",
	"DBStore.AncestorTimestamp", "DBStore.getAncestorInfo", "DBStore.applyState", "DBStore.revertState",
	"DBStore.ApplyBlock", "DBStore.RevertBlock", "DBStore.PruneBlock", "DBStore.AddBlock", "DBStore.AddState", "DBStore.Flush", "DBStore.shouldFlush"}

func recvType(fd *ast.FuncDecl) string {
	if fd.Recv == nil || len(fd.Recv.List) != 1 {
		return ""
	}
	t := fd.Recv.List[0].Type
	if st, ok := t.(*ast.StarExpr); ok {
		t = st.X
	}
	if id, ok := t.(*ast.Ident); ok {
		return id.Name
	}
	return ""
}

func genDBSkel(repo string) ([]byte, error) {
	fset := token.NewFileSet()
	f, err := parser.ParseFile(fset, filepath.Join(repo, "chain", "db.go"), nil, 0)
	if err != nil {
		return nil, err
	}
	skels := map[string][]string{}
	for _, d := range f.Decls {
		fd, ok := d.(*ast.FuncDecl)
		if !ok || fd.Body == nil {
			continue
		}
		name := fd.Name.Name
		if rt := recvType(fd); rt != "" {
			name = rt + "." + name
		}
		want := false
		for _, s := range dbSkelFuncs {
			if s == name {
				want = true
			}
		}
		if !want {
			continue
		}
		w := &skelWalker{params: map[string]bool{}, imports: map[string]bool{}}
		if fd.Recv != nil && len(fd.Recv.List[0].Names) == 1 {
			w.self = fd.Recv.List[0].Names[0].Name
		}
		w.helpers = helpersFor(f, knownDBFuncs, recvType(fd), w.self)
		for _, im := range f.Imports {
			p := strings.Trim(im.Path.Value, "\"")
			n := p[strings.LastIndex(p, "/")+1:]
			if im.Name != nil {
				n = im.Name.Name
			}
			w.imports[n] = true
		}
		w.block(fd.Body)
		skels[name] = w.toks
	}
	var b strings.Builder
	b.WriteString("/- GENERATED by harness/srcfacts (chain.go) from /repo/chain/db.go on every run; do not edit.\n")
	b.WriteString("   Data only: the control skeleton of MemDB, cacheBucket and CacheDB (receiver-rooted map\n")
	b.WriteString("   expressions are printed with their index expressions elided). -/\n")
	b.WriteString("import Verif.Lemmas.SkelTok\n\nnamespace Verif.Extracted\nopen Verif.Skel Verif.Skel.Tok\n\n")
	for _, name := range dbSkelFuncs {
		fmt.Fprintf(&b, "def skel_%s : List Tok := [\n", strings.Replace(name, ".", "_", 1))
		toks := skels[name]
		for i, t := range toks {
			sep := ","
			if i == len(toks)-1 {
				sep = ""
			}
			fmt.Fprintf(&b, "  %s%s\n", strings.Replace(t, ".", "Tok.", 1), sep)
		}
		b.WriteString("]\n\n")
	}
	b.WriteString("end Verif.Extracted\n")
	return []byte(b.String()), nil
}


// ---- helper inlining: the functions of each file as of the pinned tree are OPAQUE (a call of one
// is a token); a function that is not in these sets was introduced later — typically by an
// "extract helper" refactoring — and a call of it is replaced by its body.

var knownManagerFuncs = map[string]bool{"blockAndParent": true, "Manager.TipState": true, "Manager.Tip": true, "Manager.Block": true, "Manager.State": true, "Manager.BestIndex": true, "Manager.MinReorgIndex": true, "Manager.History": true, "Manager.Headers": true, "Manager.BlocksForHistory": true, "Manager.AddBlocks": true, "Manager.AddValidatedV2Blocks": true, "Manager.overwriteExpirations": true, "Manager.revertTip": true, "Manager.applyTip": true, "Manager.reorgPath": true, "Manager.reorgTo": true, "Manager.PruneBlocks": true, "Manager.UpdatesSince": true, "Manager.OnReorg": true, "Manager.OnPoolChange": true, "Manager.revalidatePool": true, "Manager.computeMedianFee": true, "Manager.computeParentMap": true, "updateTxnProofs": true, "checkFileContractRevisions": true, "checkEphemeralOutputs": true, "Manager.revertPoolUpdate": true, "Manager.applyPoolUpdate": true, "Manager.PoolTransaction": true, "Manager.PoolTransactions": true, "Manager.V2PoolTransaction": true, "Manager.V2PoolTransactions": true, "Manager.TransactionsForPartialBlock": true, "Manager.RecommendedFee": true, "Manager.UnconfirmedParents": true, "Manager.V2TransactionSet": true, "Manager.checkTxnSet": true, "Manager.updateV2TransactionProofs": true, "Manager.AddPoolTransactions": true, "Manager.UpdateV2TransactionSet": true, "Manager.AddV2PoolTransactions": true, "NewManager": true}

var knownDBFuncs = map[string]bool{"supplementedBlock.EncodeTo": true, "supplementedBlock.DecodeFrom": true, "versionedState.EncodeTo": true, "versionedState.DecodeFrom": true, "MemDB.Flush": true, "MemDB.Cancel": true, "MemDB.get": true, "MemDB.put": true, "MemDB.delete": true, "MemDB.Bucket": true, "MemDB.CreateBucket": true, "memBucket.Get": true, "memBucket.Put": true, "memBucket.Delete": true, "memBucket.Iter": true, "NewMemDB": true, "cacheBucket.Get": true, "cacheBucket.Put": true, "cacheBucket.Delete": true, "cacheBucket.Iter": true, "CacheDB.Bucket": true, "CacheDB.CreateBucket": true, "CacheDB.Flush": true, "CacheDB.Cancel": true, "NewCacheDB": true, "check": true, "dbBucket.getRaw": true, "dbBucket.get": true, "dbBucket.putRaw": true, "dbBucket.put": true, "dbBucket.delete": true, "DBStore.bucket": true, "DBStore.encHeight": true, "DBStore.putBestIndex": true, "DBStore.deleteBestIndex": true, "DBStore.getHeight": true, "DBStore.putHeight": true, "DBStore.getState": true, "DBStore.putState": true, "DBStore.getBlock": true, "DBStore.putBlock": true, "DBStore.getAncestorInfo": true, "DBStore.getBlockHeader": true, "DBStore.treeKey": true, "DBStore.getElementProof": true, "DBStore.getSiacoinElement": true, "DBStore.putSiacoinElement": true, "DBStore.deleteSiacoinElement": true, "DBStore.getSiafundElement": true, "DBStore.putSiafundElement": true, "DBStore.deleteSiafundElement": true, "DBStore.getFileContractElement": true, "DBStore.putFileContractElement": true, "DBStore.deleteFileContractElement": true, "DBStore.putFileContractExpiration": true, "DBStore.ExpiringFileContractIDs": true, "DBStore.OverwriteExpiringFileContractIDs": true, "DBStore.deleteFileContractExpiration": true, "DBStore.applyState": true, "DBStore.revertState": true, "DBStore.applyElements": true, "DBStore.revertElements": true, "DBStore.BestIndex": true, "DBStore.SupplementTipTransaction": true, "DBStore.SupplementTipBlock": true, "DBStore.AncestorTimestamp": true, "DBStore.State": true, "DBStore.AddState": true, "DBStore.Block": true, "DBStore.AddBlock": true, "DBStore.PruneBlock": true, "DBStore.Header": true, "DBStore.shouldFlush": true, "DBStore.ApplyBlock": true, "DBStore.RevertBlock": true, "DBStore.Flush": true, "NewDBStore": true, "NewDBStoreAtCheckpoint": true}

// helpersFor lists the inlinable functions of f for a caller whose receiver variable is self and
// receiver type recv: unexported methods of the same receiver type and unexported plain functions
// that are not in the known set.
func helpersFor(f *ast.File, known map[string]bool, recv, self string) map[string]*ast.FuncDecl {
	out := map[string]*ast.FuncDecl{}
	for _, d := range f.Decls {
		fd, ok := d.(*ast.FuncDecl)
		if !ok || fd.Body == nil || ast.IsExported(fd.Name.Name) {
			continue
		}
		rt := recvType(fd)
		full := fd.Name.Name
		if rt != "" {
			full = rt + "." + full
		}
		if known[full] {
			continue
		}
		if rt == "" {
			out[fd.Name.Name] = fd
		} else if rt == recv && self != "" {
			out[self+"."+fd.Name.Name] = fd
		}
	}
	return out
}


// ---- lock discipline of chain.Manager ----

type lockProfile struct {
	name     string
	exported bool
	ops      []string
	touches  bool
	early    bool // touches the state at a source position before the first operation on m.mu
}

func managerMutexType(f *ast.File) string {
	out := "?"
	ast.Inspect(f, func(n ast.Node) bool {
		ts, ok := n.(*ast.TypeSpec)
		if !ok || ts.Name.Name != "Manager" {
			return true
		}
		st, ok := ts.Type.(*ast.StructType)
		if !ok {
			return false
		}
		for _, fl := range st.Fields.List {
			for _, nm := range fl.Names {
				if nm.Name == "mu" {
					out = exprString(fl.Type)
				}
			}
		}
		return false
	})
	return out
}

func managerLockProfiles(f *ast.File) []lockProfile {
	var out []lockProfile
	// the unexported methods run under the caller's lock: calling one is touching the state.
	// Unexported methods that did not exist when the table was frozen (knownManagerFuncs) are the
	// product of an "extract helper" refactoring: their lock operations and state accesses are
	// read at the call site, like the skeletons do, and they get no row of their own.
	internal := map[string]bool{}
	helper := map[string]*ast.FuncDecl{}
	for _, d := range f.Decls {
		if fd, ok := d.(*ast.FuncDecl); ok && fd.Body != nil && recvType(fd) == "Manager" && !ast.IsExported(fd.Name.Name) {
			if knownManagerFuncs["Manager."+fd.Name.Name] {
				internal[fd.Name.Name] = true
			} else if len(fd.Recv.List[0].Names) == 1 {
				helper[fd.Name.Name] = fd
			}
		}
	}
	for _, d := range f.Decls {
		fd, ok := d.(*ast.FuncDecl)
		if !ok || fd.Body == nil || recvType(fd) != "Manager" || len(fd.Recv.List[0].Names) != 1 || helper[fd.Name.Name] != nil {
			continue
		}
		lp := lockProfile{name: fd.Name.Name, exported: ast.IsExported(fd.Name.Name)}
		locked := false // an operation on m.mu has been seen
		var walk func(n ast.Node, self string, deferred bool, depth int)
		walk = func(n ast.Node, self string, deferred bool, depth int) {
			ast.Inspect(n, func(x ast.Node) bool {
				switch e := x.(type) {
				case *ast.DeferStmt:
					walk(e.Call, self, true, depth)
					return false
				case *ast.CallExpr:
					if sel, ok := e.Fun.(*ast.SelectorExpr); ok {
						if exprString(sel.X) == self+".mu" {
							op := sel.Sel.Name
							if deferred {
								op = "defer " + op
							}
							lp.ops = append(lp.ops, op)
							locked = true
						}
						if id, ok := sel.X.(*ast.Ident); ok && id.Name == self && depth < 4 {
							if h := helper[sel.Sel.Name]; h != nil {
								for _, a := range e.Args {
									walk(a, self, deferred, depth)
								}
								walk(h.Body, h.Recv.List[0].Names[0].Name, deferred, depth+1)
								return false
							}
						}
					}
				case *ast.SelectorExpr:
					if id, ok := e.X.(*ast.Ident); ok && id.Name == self {
						switch n := e.Sel.Name; {
						case n == "tipState", n == "store", n == "txpool", n == "onReorg", n == "onPool", n == "expiringFileContractOrder", internal[n]:
							lp.touches = true
							if !locked {
								lp.early = true
							}
						}
					}
				}
				return true
			})
		}
		walk(fd.Body, fd.Recv.List[0].Names[0].Name, false, 0)
		if len(lp.ops) == 0 {
			lp.early = false // no lock at all: nothing is "before" it
		}
		out = append(out, lp)
	}
	sort.Slice(out, func(i, j int) bool { return out[i].name < out[j].name })
	return out
}
